"""C19 - libdialect: graph decompositions partition the graph and planarise it (DESIGN 5.19).
proof: Dialect/Peel.v + PeelRoot.v over the hand model Dialect/PeelModel.v (leaf-stripping rounds with the double-centre rule,
the workspace graph H with tree serial numbers, identifyRootNode, connected components by fuelled worklist exploration);
tie (C): dialect::peel output (core, trees as node/edge sets, roots) and Graph::getConnComps vs the extracted model, exactly,
on random connected graphs <= 60 nodes, trees (paths, stars, caterpillars, random), cycles with pendant trees, and
disconnected graphs (components only);
V (verified oracles on real outputs, no model of the C++):
  * peel_okb / conncomps_okb: sound AND complete for the declarative conditions peel_spec / conncomps_spec_decl
    (Dialect/PeelCheck.v: fuel adequacy, tree characterisation "connected: acyclic <-> |E|+1=|V|");
  * Tree::symmetricLayout: trees with non-square / mixed node boxes, all four growth directions, convex and concave ordering;
    tree_layout_ok (Dialect/TreeLayout.v: iff "no two node boxes share an interior point") on the centres + dimensions;
  * LeaflessOrthoRouter / RoutingAdapter + OrthoPlanariser::planarise: planarise_ok (Dialect/PlanariseCheck.v: iff
    "ids distinct, every original node present where it was, open segments of any two result edges disjoint (crossing or
    collinear overlap), every original edge replaced by a chain whose inner nodes are all new"); small graphs get a SECOND round on the
    same Graph object (nodes moved by lattice offsets, routed again by a fresh router of the same kind, fresh OrthoPlanariser) and
    the family `explicit` sets orthogonal L / Z routes with Edge::setRoute in both rounds (rows and columns of their own, bend
    counts chosen independently per round); planarise_ok judges BOTH results against the node positions in force.
Known findings on the unchanged tree (classifier predicates below): tree_rank_collision, planarise_short_segment,
planarise_crossing_within_tolerance, replanarise_after_route_lost_bends (second planarise() throws map::at after an edge's route
became bend-free; corpus/c19_replanarise.txt).  Routing failures inside libavoid (assertion / SIGSEGV in the nudging code, a C15 known
finding) leave nothing to planarise: counted, bounded by 20%."""
import os, re, time, tempfile, shutil
from fractions import Fraction
from vlib import common as C

PID = 'C19'
LIBS = ['libdialect', 'libcola', 'libtopology', 'libavoid', 'libvpsc']
FLAVOR = 'c19exc'


def relabel(rng, n, edges):
    perm = rng.shuffle(list(range(n)))
    return [(perm[a], perm[b]) for a, b in edges]


def rand_tree(rng, n, kind):
    es = []
    if kind == 'path':
        es = [(i, i + 1) for i in range(n - 1)]
    elif kind == 'star':
        es = [(0, i) for i in range(1, n)]
    elif kind == 'caterpillar':
        spine = max(1, n // 2)
        es = [(i, i + 1) for i in range(spine - 1)] + [(rng.below(spine), v) for v in range(spine, n)]
    elif kind == 'deep':
        es = [(max(0, v - 1 - rng.below(2)), v) for v in range(1, n)]
    else:
        es = [(rng.below(v), v) for v in range(1, n)]
    return es


def gen_graphs(rng, tier):
    """(kind, n, peel?, edges)"""
    out = []
    N = 600 if tier == 'quick' else 5000
    kinds = ['random', 'random', 'random', 'tree', 'path', 'star', 'caterpillar', 'deep', 'cycle', 'cyclepend', 'dense', 'disconnected']
    # fixed small ones first: K2, paths (even = double centre), triangle, triangle with tails
    for n in range(2, 9):
        out.append(('path', n, 1, [(i, i + 1) for i in range(n - 1)]))
    out.append(('cycle', 3, 1, [(0, 1), (1, 2), (2, 0)]))
    for _ in range(N):
        kind = rng.choice(kinds)
        n = rng.range(2, 60) if rng.chance(3, 4) else rng.range(2, 9)
        peel = 1
        if kind in ('tree', 'path', 'star', 'caterpillar', 'deep'):
            es = rand_tree(rng, n, kind)
        elif kind == 'cycle':
            n = max(n, 3)
            es = [(i, (i + 1) % n) for i in range(n)]
        elif kind == 'cyclepend':
            n = max(n, 4)
            c = rng.range(3, max(3, n // 2))
            es = [(i, (i + 1) % c) for i in range(c)] + [(rng.below(v), v) for v in range(c, n)]
        elif kind == 'dense':
            n = min(n, 14)
            es = [(rng.below(v), v) for v in range(1, n)]
            es += [(a, b) for a in range(n) for b in range(a + 1, n) if rng.chance(1, 3)]
        elif kind == 'disconnected':
            es = [(a, b) for a in range(n) for b in range(a + 1, n) if rng.chance(1, max(2, n))]
            peel = 0
        else:
            es = [(rng.below(v), v) for v in range(1, n)]
            for _ in range(rng.below(n // 2 + 1) if not rng.chance(1, 3) else 0):
                a, b = rng.below(n), rng.below(n)
                if a != b:
                    es.append((a, b))
        # simple graph: drop duplicates in either orientation
        seen, ses = set(), []
        for a, b in es:
            k = (min(a, b), max(a, b))
            if a != b and k not in seen:
                seen.add(k)
                ses.append((a, b) if rng.chance(1, 2) else (b, a))
        es = relabel(rng, n, ses)
        out.append((kind, n, peel, es))
    return out


# ---------------------------------------------------------------------------- symmetric tree layout (V)
DIRS = ['EAST', 'SOUTH', 'WEST', 'NORTH']
SHAPES = {'wide': [(90, 20)], 'tall': [(20, 90)], 'square': [(30, 30)],
          'mixed': [(90, 20), (20, 90), (30, 30), (50, 10), (10, 50), (40, 40), (64, 16), (16, 64)]}


def gen_trees(rng, tier):
    """rooted trees (node 0 = root, edges parent -> child) with node dimensions, growth direction, separations.
    rankSep exceeds every node extent in the main stream (ranks cannot touch); the 'ranksmall' stream (1 in 8) uses a
    rankSep below the node extents, the family of the known finding tree_rank_collision"""
    out = []
    N = 260 if tier == 'quick' else 2500
    fixed = [('star', 7, [(0, i) for i in range(1, 7)]),
             ('3x5', 19, [(0, 1 + 6 * c) for c in range(3)] + [(1 + 6 * c, 2 + 6 * c + l) for c in range(3) for l in range(5)]),
             ('fork', 3, [(0, 1), (0, 2)])]
    for name, n, es in fixed:
        for shape in ('wide', 'tall', 'square'):
            for d in range(4):
                for convex in (1, 0):
                    out.append({'kind': name, 'n': n, 'dir': d, 'nodeSep': 10, 'rankSep': 150, 'convex': convex, 'shape': shape,
                                'dims': [SHAPES[shape][0]] * n, 'edges': es})
    kinds = ['random', 'fewparents', 'fewparents', 'kary', 'caterpillar', 'deep', 'star', 'twolevel']
    for _ in range(N):
        kind = rng.choice(kinds)
        n = rng.range(2, 40) if rng.chance(2, 3) else rng.range(2, 9)
        if kind == 'random':
            es = [(rng.below(v), v) for v in range(1, n)]
        elif kind == 'fewparents':          # many nodes with several leaf children
            es = [(rng.below(min(v, 7)), v) for v in range(1, n)]
        elif kind == 'kary':
            k = rng.range(2, 4)
            es = [((v - 1) // k, v) for v in range(1, n)]
        elif kind == 'caterpillar':
            spine = max(1, n // 3)
            es = [(i, i + 1) for i in range(spine - 1)] + [(rng.below(spine), v) for v in range(spine, n)]
        elif kind == 'deep':
            es = [(max(0, v - 1 - rng.below(3)), v) for v in range(1, n)]
        elif kind == 'star':
            es = [(0, v) for v in range(1, n)]
        else:                               # root, a few children, leaves below them
            c = rng.range(1, max(1, min(5, n - 1)))
            es = [(0, v) for v in range(1, c + 1)] + [(rng.range(1, c), v) for v in range(c + 1, n)]
        shape = rng.choice(['wide', 'tall', 'square', 'mixed', 'mixed'])
        dims = [rng.choice(SHAPES[shape]) for _ in range(n)]
        ext = max(max(w, h) for w, h in dims)
        small = rng.chance(1, 8)
        rank_sep = rng.choice([25, 40]) if small else ext + rng.choice([10, 35, 60])
        out.append({'kind': kind + ('/ranksmall' if small else ''), 'n': n, 'dir': rng.below(4), 'nodeSep': rng.choice([5, 10, 20]),
                    'rankSep': rank_sep, 'convex': rng.below(2), 'shape': shape, 'dims': dims, 'edges': es})
    return out


def tree_lines(t):
    return (['T %d %d %d %d %d' % (t['n'], t['dir'], t['nodeSep'], t['rankSep'], t['convex'])] +
            ['n %d %d %d' % (i, w, h) for i, (w, h) in enumerate(t['dims'])] + ['e %d %d' % e for e in t['edges']])


def tree_txt(t):
    return {'kind': t['kind'], 'nodes': t['n'], 'root': 0, 'growthDir': DIRS[t['dir']], 'nodeSep': t['nodeSep'], 'rankSep': t['rankSep'],
            'convexOrdering': bool(t['convex']), 'node_dims_w_h': ['%dx%d' % d for d in t['dims']],
            'edges_parent_child': ['%d-%d' % e for e in t['edges']], 'harness_input': tree_lines(t)}


def run_driver(args, timeout=2400):
    """run the extracted checker; a driver that dies is a tooling failure, not a verdict: retry once, then give up loudly"""
    for attempt in (1, 2):
        rc, out, err, dt = C.sh(args, timeout=timeout)
        if rc == 0:
            return out, dt
    raise RuntimeError('extracted C19 driver failed (rc %d): %s\n%s' % (rc, ' '.join(args), err[-2000:]))


def hexq(x):
    f = Fraction(x)
    return '%s%x/%x' % ('-' if f < 0 else '', abs(f.numerator), f.denominator)


def tree_ranks(t):
    rank, ch = {0: 0}, {}
    for a, b in t['edges']:
        ch.setdefault(a, []).append(b)
    todo = [0]
    while todo:
        v = todo.pop()
        for c in ch.get(v, []):
            rank[c] = rank[v] + 1
            todo.append(c)
    return rank


def run_trees(res, rng, tier, tmp, drv, hist):
    """Tree::symmetricLayout on generated trees; the extracted verified checker tree_layout_ok decides on the real output.
    returns number of violations reported"""
    exe = C.build_harness('c19_tree', LIBS, FLAVOR)
    trees = gen_trees(rng, tier)
    tf = os.path.join(tmp, 'trees.txt')
    open(tf, 'w').write('\n'.join(l for t in trees for l in tree_lines(t)) + '\n')
    rc, out, err, dt = C.sh([exe, tf], timeout=1200)
    cases = split_cases(out)
    th = {'trees': len(trees), 'by_kind': {}, 'by_shape': {}, 'by_dir': {}, 'convex': 0, 'concave': 0, 'nodes': 0, 'non_square_nodes': 0,
          'ranksmall': 0, 'layouts_ok': 0, 'layouts_rank_collision_only': 0, 'overlapping_pairs_rank_collision': 0}
    hist['symmetric_layout_boxes'] = th
    if rc != 0:
        k = max(cases) if cases else 0
        d = tree_txt(trees[min(k, len(trees) - 1)])
        d.update({'what': 'harness c19_tree crashed (rc %d) in Tree::symmetricLayout on this tree' % rc, 'stderr': err[-1500:],
                  'replay': 'harness/c19_tree.cpp <file with harness_input>'})
        res.violation(d)
        return 1
    # driver input: exact rationals of the dumped doubles
    df = os.path.join(tmp, 'trees_chk.txt')
    pos = {}
    with open(df, 'w') as fh:
        for k, t in enumerate(trees):
            ls = cases.get(k, [])
            fh.write('T %d\n' % k)
            pos[k] = {}
            for l in ls:
                f = l.split()
                if f[0] == 'N':
                    vals = [Fraction(float(x)) for x in f[2:6]]
                    pos[k][int(f[1])] = vals
                    fh.write('N %s %s\n' % (f[1], ' '.join(hexq(v) for v in vals)))
            fh.write('end\n')
    c_out, dt = run_driver([drv, 'tree', df])
    verdict = {}
    for line in c_out.split('\n'):
        f = line.split()
        if len(f) >= 2:
            verdict[int(f[0])] = f[1:]
    nviol, samples = 0, []
    for k, t in enumerate(trees):
        for key, val in (('by_kind', t['kind']), ('by_shape', t['shape']), ('by_dir', DIRS[t['dir']])):
            th[key][val] = th[key].get(val, 0) + 1
        th['convex' if t['convex'] else 'concave'] += 1
        th['nodes'] += t['n']
        th['non_square_nodes'] += sum(1 for w, h in t['dims'] if w != h)
        th['ranksmall'] += 1 if t['kind'].endswith('/ranksmall') else 0
        ls = cases.get(k, [])
        v = verdict.get(k, ['missing'])
        bad, fp = None, None
        exc = [l for l in ls if l.startswith('EXC')]
        if exc:
            bad = 'Tree::symmetricLayout raised an assertion/exception: ' + exc[0][:300]
        elif len(pos[k]) != t['n']:
            bad = 'harness returned %d of %d nodes' % (len(pos[k]), t['n'])
        elif v[0] == 'ok':
            th['layouts_ok'] += 1
        elif v[0] == 'BAD':
            pairs = [tuple(int(x) for x in p.split(',')) for p in v[1:]]
            rank = tree_ranks(t)
            vertical = t['dir'] in (1, 3)
            # known finding tree_rank_collision: the two nodes are on different ranks and their half extents ALONG the growth
            # axis add up to more than the distance rankSep * |rank difference| the library puts between the rank centre lines
            def rank_collision(i, j):
                ei = pos[k][i][3] if vertical else pos[k][i][2]
                ej = pos[k][j][3] if vertical else pos[k][j][2]
                return rank[i] != rank[j] and (ei + ej) / 2 > t['rankSep'] * abs(rank[i] - rank[j])
            others = [p for p in pairs if not rank_collision(*p)]
            detail = [{'nodes': [i, j], 'ranks': [rank[i], rank[j]],
                       'centres': [[float(pos[k][i][0]), float(pos[k][i][1])], [float(pos[k][j][0]), float(pos[k][j][1])]],
                       'dims_w_h': [[float(pos[k][i][2]), float(pos[k][i][3])], [float(pos[k][j][2]), float(pos[k][j][3])]]}
                      for i, j in (others or pairs)[:6]]
            if others:
                bad = ('Tree::symmetricLayout placed two nodes on top of each other: %d overlapping pairs of node boxes (verified checker '
                       'tree_layout_ok), %d of them not explained by rank collision; first: nodes %d and %d'
                       % (len(pairs), len(others), others[0][0], others[0][1]))
            else:
                fp = 'tree_rank_collision'
                bad = ('Tree::symmetricLayout: %d overlapping pairs, all between nodes of different ranks whose extents along the growth '
                       'axis exceed rankSep * rank distance' % len(pairs))
                th['layouts_rank_collision_only'] += 1
                th['overlapping_pairs_rank_collision'] += len(pairs)
        else:
            bad = 'no verdict from the checker (%s)' % ' '.join(v)
        if bad and (fp or nviol < 3):
            d = tree_txt(t)
            d.update({'what': bad, 'implementation_output': ls[:60], 'checker': ' '.join(v)[:400],
                      'replay': 'harness/c19_tree.cpp <file with harness_input>; extract/c19_driver.ml tree <N lines as exact rationals>'})
            if v[0] == 'BAD':
                d['overlapping'] = detail
            if res.violation(d, fingerprint=fp):
                nviol += 1
        if k % 97 == 3 and len(samples) < 3:
            samples.append({'tree': tree_txt(t), 'implementation_output': ls[:8], 'checker': v[0]})
    th['samples'] = samples
    return nviol


# ---------------------------------------------------------------------------- OrthoPlanariser::planarise (V)
NODE_SIZES = [(30, 30), (30, 30), (40, 20), (20, 40), (50, 30), (24, 24)]


def _fixed_plan(kind, router, buf, nodes, edges):
    return {'kind': kind, 'n': len(nodes), 'router': router, 'buf': buf, 'pos': [(x, y) for x, y, w, h in nodes],
            'dims': [(w, h) for x, y, w, h in nodes], 'edges': edges}


# regression inputs (found by this check on the unchanged tree): the two known planarise findings and a routing crash
FIXED_PLAN = [
    # planarise_short_segment: bend nodes (120,120) and (120.5,120) on one run
    _fixed_plan('fixed/K6-short-segment', 0, 125,
                [(0, 0, 30, 30), (120, 240, 30, 30), (240, 240, 40, 20), (0, 120, 40, 20), (240, 0, 30, 30), (240, 120, 24, 24)],
                [(0, 1), (2, 0), (3, 0), (0, 4), (0, 5), (2, 1), (3, 1), (1, 4), (5, 1), (2, 3), (2, 4), (2, 5), (4, 3), (5, 3), (5, 4)]),
    # planarise_crossing_within_tolerance: bend (319.28,220) next to the vertical x=320
    _fixed_plan('fixed/dense9-tolerance', 0, 125,
                [(320, 160, 24, 24), (300, 10, 24, 24), (10, 310, 40, 20), (0, 0, 30, 30), (300, 460, 30, 30), (170, 310, 30, 30),
                 (170, -10, 30, 30), (300, 280, 24, 24), (10, 150, 50, 30)],
                [(3, 8), (6, 3), (1, 6), (1, 2), (5, 2), (5, 7), (0, 7), (0, 4), (8, 4), (8, 6), (1, 5), (8, 5), (6, 2), (1, 7), (3, 4), (8, 7)]),
    # libavoid dies (SIGSEGV at orthogonal.cpp:3206, the index of the nudging assertion is out of range) while routing K7
    _fixed_plan('fixed/K7-routing-crash', 0, 0,
                [(0, 300, 24, 24), (0, 150, 50, 30), (150, 150, 50, 30), (150, 0, 30, 30), (150, 300, 30, 30), (150, 450, 40, 20), (300, 150, 24, 24)],
                [(0, 1), (0, 2), (0, 3), (4, 0), (5, 0), (0, 6), (2, 1), (1, 3), (4, 1), (5, 1), (6, 1), (3, 2), (4, 2), (5, 2), (6, 2),
                 (3, 4), (5, 3), (6, 3), (5, 4), (6, 4), (6, 5)]),
]


PLAN_CORPUS = os.path.join(C.VERIF, 'corpus', 'c19_replanarise.txt')


def parse_plan_file(path):
    """inverse of plan_lines() for the corpus file (integer coordinates)"""
    out, g, kind = [], None, 'corpus'
    for line in open(path):
        f = line.split()
        if not f:
            continue
        if f[0] == '#kind':
            kind = f[1]
        elif f[0] == 'P':
            n = int(f[1])
            g = {'kind': kind, 'n': n, 'router': int(f[2]), 'buf': int(f[3]), 'pos': [(0, 0)] * n, 'dims': [(30, 30)] * n, 'edges': []}
            if len(f) > 4 and f[4] == '2':
                g['pos2'] = None
            out.append(g)
        elif g is None or f[0].startswith('#'):
            continue
        elif f[0] == 'n':
            g['pos'][int(f[1])] = (int(f[2]), int(f[3])); g['dims'][int(f[1])] = (int(f[4]), int(f[5]))
        elif f[0] == 'e':
            g['edges'].append((int(f[1]), int(f[2])))
        elif f[0] == 'm':
            g.setdefault('moves', []).append((int(f[1]), int(f[2]), int(f[3])))
        elif f[0] == 'r':
            rts = g.setdefault('routes', [[], []])
            v = [int(x) for x in f[4:4 + 2 * int(f[3])]]
            r = rts[int(f[1]) - 1]
            while len(r) <= int(f[2]):
                r.append([])
            r[int(f[2])] = [(v[i], v[i + 1]) for i in range(0, len(v), 2)]
    for g in out:
        if 'pos2' in g:
            g['pos2'] = list(g['pos'])
            for i, x, y in g.pop('moves', []):
                g['pos2'][i] = (x, y)
    return out


def gen_plan_graphs(rng, tier):
    """connected simple graphs with node boxes that do not overlap, to be routed orthogonally and planarised.
    router 0 = LeaflessOrthoRouter (needs minimum degree 2), 1 = RoutingAdapter(OrthogonalRouting)"""
    out = list(FIXED_PLAN)
    if os.path.exists(PLAN_CORPUS):
        out += parse_plan_file(PLAN_CORPUS)
    N = 56 if tier == 'quick' else 400
    kinds = ['grid', 'grid', 'jitter', 'jitter', 'dense', 'complete', 'circle', 'big']
    nbig = 0
    for it in range(N):
        kind = rng.choice(kinds)
        router = 0 if rng.chance(2, 3) else 1
        if kind == 'big':
            # LeaflessOrthoRouter re-routes up to 4n+1 times: 20 s for 50 nodes; the single-pass adapter takes 1-5 s for 45-60
            nbig += 1
            if tier == 'quick':
                if nbig == 1:
                    n, router = rng.range(45, 60), 1
                elif nbig <= 4:
                    n = rng.range(20, 34)
                else:
                    n = rng.range(12, 24)
            else:
                n = rng.range(30, 44) if router == 0 else rng.range(30, 60)
        elif kind == 'complete':
            n = rng.range(4, 7)
        elif kind == 'dense':
            n = rng.range(5, 12)
        else:
            n = rng.range(3, 24)
        if n < 3:
            router = 1
        # positions
        sp = rng.choice([100, 120, 150])
        if kind == 'circle':
            import math
            rad = max(120, 25 * n)
            pos = [(int(round(rad * math.cos(2 * math.pi * i / n))), int(round(rad * math.sin(2 * math.pi * i / n)))) for i in range(n)]
        else:
            cols = max(2, int(n ** 0.5 + 0.999))
            cells = rng.shuffle([(c, r) for r in range((n + cols - 1) // cols + 1) for c in range(cols)])[:n]
            jit = 0 if kind in ('grid', 'complete') or (kind in ('dense', 'big') and rng.chance(1, 2)) else 1
            pos = [(c * sp + jit * 10 * rng.range(-2, 2), r * sp + jit * 10 * rng.range(-2, 2)) for c, r in cells]
        dims = [rng.choice(NODE_SIZES) for _ in range(n)]
        # edges
        if kind == 'complete':
            es = [(a, b) for a in range(n) for b in range(a + 1, n)]
        else:
            if router == 0:
                perm = rng.shuffle(list(range(n)))
                es = [(perm[i], perm[(i + 1) % n]) for i in range(n)]
            else:
                es = [(rng.below(v), v) for v in range(1, n)]
            extra = {'dense': n, 'big': n // 3}.get(kind, rng.below(n // 2 + 2))
            for _ in range(extra):
                a, b = rng.below(n), rng.below(n)
                if a != b:
                    es.append((a, b))
        seen, ses = set(), []
        for a, b in es:
            k = (min(a, b), max(a, b))
            if a != b and k not in seen:
                seen.add(k)
                ses.append((a, b) if rng.chance(1, 2) else (b, a))
        buf = rng.choice([0, 0, 125])
        g = {'kind': kind, 'n': n, 'router': router, 'buf': buf, 'pos': pos, 'dims': dims, 'edges': ses}
        # second round on the SAME Graph object (layout changed, re-route with a fresh router of the same kind, re-planarise): small graphs
        # only (routing time); moved nodes get a new lattice jitter around their cell / circle position, so that boxes still cannot overlap
        if n <= 12 and kind != 'complete' and rng.chance(2, 3):
            if kind == 'circle':
                base = pos
            else:
                base = [(c * sp, r * sp) for c, r in cells]
            pos2 = list(pos)
            for i in range(n):
                if rng.chance(1, 2):
                    pos2[i] = (base[i][0] + 10 * rng.range(-2, 2), base[i][1] + 10 * rng.range(-2, 2))
            if pos2 != pos:
                g['pos2'] = pos2
        out.append(g)
    # explicit orthogonal routes (no router): every node in a row and a column of its own (lattice 100), every edge routed with one bend
    # (L) or two bends (Z through a half-lattice column / row, which contains no node); second round on the same Graph object: nodes are
    # permuted into new rows / columns and every edge gets a new explicit route (Edge::setRoute), bend counts chosen independently
    NX = 40 if tier == 'quick' else 300
    for it in range(NX):
        out.append(gen_explicit_plan(rng, straighten=(it % 13 == 12)))
    return out


def explicit_route(rng, a, b, avoid_row=None):
    """orthogonal route between node centres a, b on rows / columns of their own: L (one bend) or Z (two bends)"""
    (ax, ay), (bx, by) = a, b
    kind = rng.below(4)
    if avoid_row is not None:
        # one of the two nodes shares its row with a third node: leave / reach it along its own column
        if ay == avoid_row:
            return [a, (ax, by), b]
        return [a, (bx, ay), b]
    if kind == 0:
        return [a, (bx, ay), b]
    if kind == 1:
        return [a, (ax, by), b]
    if kind == 2:
        mx = 100 * rng.range(min(ax, bx) // 100, max(ax, bx) // 100 - 1) + 50
        return [a, (mx, ay), (mx, by), b]
    my = 100 * rng.range(min(ay, by) // 100, max(ay, by) // 100 - 1) + 50
    return [a, (ax, my), (bx, my), b]


def gen_explicit_plan(rng, straighten=False):
    n = rng.range(4, 15) if rng.chance(3, 4) else rng.range(3, 6)
    m = n + rng.below(n)
    seen, es = set(), []
    for _ in range(m):
        a, b = rng.below(n), rng.below(n)
        k = (min(a, b), max(a, b))
        if a != b and k not in seen:
            seen.add(k); es.append((a, b))
    if not es:
        es = [(0, 1)]

    def place():
        px, py = rng.shuffle(list(range(n))), rng.shuffle(list(range(n)))
        return [(100 * px[i], 100 * py[i]) for i in range(n)]
    pos = place()
    mode = rng.below(3)
    if mode == 0:
        pos2 = place()                                   # everything moves
    else:
        # a subset of the nodes is permuted among its own rows and columns (rows / columns stay distinct)
        sub = [i for i in range(n) if rng.chance(1, 2)] or [0]
        xs, ys = rng.shuffle([pos[i][0] for i in sub]), rng.shuffle([pos[i][1] for i in sub])
        pos2 = list(pos)
        for j, i in enumerate(sub):
            pos2[i] = (xs[j], ys[j])
    g = {'kind': 'explicit', 'n': n, 'router': 2, 'buf': 0, 'pos': pos, 'dims': [(20, 20)] * n, 'edges': es}
    shared_row = None
    if straighten:
        # the family of the known finding replanarise_after_route_lost_bends: in round 2 the target of edge 0 moves into the row of its
        # source and the edge becomes bend-free (2 route points)
        a, b = es[0]
        pos2 = list(pos2)
        pos2[b] = (pos2[b][0], pos2[a][1])
        shared_row = pos2[a][1]
        g['kind'] = 'explicit/straighten'
    r1 = [explicit_route(rng, pos[a], pos[b]) for a, b in es]
    r2 = []
    for j, (a, b) in enumerate(es):
        if straighten and j == 0:
            r2.append([pos2[a], pos2[b]])
        elif shared_row is not None and shared_row in (pos2[a][1], pos2[b][1]):
            r2.append(explicit_route(rng, pos2[a], pos2[b], avoid_row=shared_row))
        elif mode == 2 and pos2[a] == pos[a] and pos2[b] == pos[b]:
            r2.append(r1[j])                              # untouched edge keeps its route
        else:
            r2.append(explicit_route(rng, pos2[a], pos2[b]))
    g['pos2'] = pos2
    g['routes'] = [r1, r2]
    return g


def plan_lines(g):
    ls = (['P %d %d %d%s' % (g['n'], g['router'], g['buf'], ' 2' if g.get('pos2') else '')] +
          ['n %d %d %d %d %d' % (i, g['pos'][i][0], g['pos'][i][1], g['dims'][i][0], g['dims'][i][1]) for i in range(g['n'])] +
          ['e %d %d' % e for e in g['edges']])
    if g.get('pos2'):
        ls += ['m %d %d %d' % (i, g['pos2'][i][0], g['pos2'][i][1]) for i in range(g['n']) if g['pos2'][i] != g['pos'][i]]
    for rnd, rts in enumerate(g.get('routes', []), 1):
        ls += ['r %d %d %d ' % (rnd, j, len(r)) + ' '.join('%d %d' % p for p in r) for j, r in enumerate(rts)]
    return ls


def plan_txt(g):
    return {'kind': g['kind'], 'nodes': g['n'], 'router': ['LeaflessOrthoRouter', 'RoutingAdapter(OrthogonalRouting)', 'explicit routes (Edge::setRoute)'][g['router']],
            'shapeBufferDistanceIELScalar': g['buf'] / 1000.0,
            'node_centre_dims': ['%d:(%d,%d) %dx%d' % (i, g['pos'][i][0], g['pos'][i][1], g['dims'][i][0], g['dims'][i][1]) for i in range(g['n'])],
            'edges': ['%d-%d' % e for e in g['edges']], 'harness_input': plan_lines(g),
            'second_round_on_the_same_Graph': None if not g.get('pos2') else {
                'node_centres': ['%d:(%d,%d)' % (i, g['pos2'][i][0], g['pos2'][i][1]) for i in range(g['n'])],
                'how': 'Node::setCentre of the moved nodes, then ' + ('Edge::setRoute of the explicit routes of round 2 (harness lines "r 2 ...")' if g['router'] == 2 else
                       'a fresh router object of the same kind records new routes (Edge::setRoute)') + ', then a fresh OrthoPlanariser(G).planarise()'}}


def short_segments(ls):
    """the family of the known finding planarise_short_segment, computed from the routed INPUT of the planariser (R lines):
    two distinct route points on one horizontal run (|dy| <= 0.5, both covered by one route segment of that line) whose x
    distance is at most 0.8 (the x-partition tolerance of computeCrossings), or on one vertical run with y distance at most 1.0
    (TOLERANCE of CompareActiveEvents).  returns [('H'|'V', line coordinate, (x,y), (x,y))]"""
    routes = []
    for l in ls:
        f = l.split()
        if f[0] == 'R':
            v = [float(x) for x in f[4:]]
            routes.append([(v[i], v[i + 1]) for i in range(0, len(v), 2)])
    pts = sorted(set(p for r in routes for p in r))
    out = []
    for r in routes:
        for a, b in zip(r, r[1:]):
            horiz = abs(b[1] - a[1]) <= abs(b[0] - a[0])
            c, v = (1, 0) if horiz else (0, 1)            # index of the constant / the variable coordinate
            lo, hi = min(a[v], b[v]), max(a[v], b[v])
            on = sorted((p for p in pts if abs(p[c] - a[c]) <= 0.5 and lo - 0.5 <= p[v] <= hi + 0.5), key=lambda p: p[v])
            for p, q in zip(on, on[1:]):
                gap = q[v] - p[v]
                if 0 < gap <= (0.8 if horiz else 1.0):
                    out.append(('H' if horiz else 'V', a[c], p, q))
    return out


def classify_plan_failure(ls, v):
    """fingerprint of a known finding or None.  ls: harness output lines of the case, v: checker verdict fields"""
    flags = dict(x.split('=') for x in v[1:5])
    if not (flags.get('nodup') == '1' and flags.get('present') == '1' and flags.get('chains') == '1' and flags.get('nocross') == '0'):
        return None, None
    shorts = short_segments(ls)
    pos, edges = {}, []
    for l in ls:
        f = l.split()
        if f[0] == 'N':
            pos[f[1]] = (float(f[2]), float(f[3]))
        elif f[0] == 'E':
            edges.append((f[1], f[2]))
    def bogus(i):
        # an edge lying on the line of a short segment with one end at an end point of that short segment: the kind of edge
        # computeCrossings produces when the short segment's OPEN event is never closed
        a, b = pos[edges[i][0]], pos[edges[i][1]]
        for kind, coord, p, q in shorts:
            c = 1 if kind == 'H' else 0
            if abs(a[c] - coord) <= 0.5 and abs(b[c] - coord) <= 0.5:
                for e in (a, b):
                    for s in (p, q):
                        if abs(e[0] - s[0]) <= 0.5 and abs(e[1] - s[1]) <= 0.5:
                            return True
        return False
    def near_end_crossing(i, j):
        # everything the two open edges have in common (a crossing point, or a collinear stretch) lies at most 1.0
        # (Chebyshev) from one end point of one of them: computeCrossings sorts events with tolerances (x-parts 0.8,
        # CompareActiveEvents 1.0) and takes such a crossing for the end of the segment
        a, b = pos[edges[i][0]], pos[edges[i][1]]
        c, d = pos[edges[j][0]], pos[edges[j][1]]
        den = (b[0] - a[0]) * (d[1] - c[1]) - (b[1] - a[1]) * (d[0] - c[0])
        if den == 0:
            # collinear overlap: the whole common stretch lies within 1.0 of one end point
            ax = 0 if abs(b[0] - a[0]) >= abs(b[1] - a[1]) else 1
            lo = max(min(a[ax], b[ax]), min(c[ax], d[ax]))
            hi = min(max(a[ax], b[ax]), max(c[ax], d[ax]))
            return lo < hi and any(abs(lo - e[ax]) <= 1.0 and abs(hi - e[ax]) <= 1.0 and abs(e[1 - ax] - a[1 - ax]) <= 1.0
                                   for e in (a, b, c, d))
        t = ((c[0] - a[0]) * (d[1] - c[1]) - (c[1] - a[1]) * (d[0] - c[0])) / den
        x = (a[0] + t * (b[0] - a[0]), a[1] + t * (b[1] - a[1]))
        return min(max(abs(x[0] - e[0]), abs(x[1] - e[1])) for e in (a, b, c, d)) <= 1.0
    # coordinates the sweep of computeCrossings cannot tell apart although removeEdgeOverlaps kept them apart: maximal chains of
    # distinct node x values with consecutive gaps <= 0.8 (x-partition tolerance, running average) resp. y values with gaps <= 1.0
    # (TOLERANCE of CompareActiveEvents).  An edge with an end point on such a coordinate is "tolerance-affected".
    def ambiguous(vals, tol):
        vals = sorted(set(vals))
        amb, chain = set(), vals[:1]
        for x in vals[1:]:
            if x - chain[-1] <= tol:
                chain.append(x)
            else:
                if len(chain) > 1:
                    amb.update(chain)
                chain = [x]
        if len(chain) > 1:
            amb.update(chain)
        return amb
    amb_x = ambiguous([p[0] for p in pos.values()], 0.8)
    amb_y = ambiguous([p[1] for p in pos.values()], 1.0)
    def affected(i):
        return any(pos[n][0] in amb_x or pos[n][1] in amb_y for n in edges[i])
    pairs = [tuple(int(x) for x in v[i + 1].split(',')) for i in range(len(v) - 1) if v[i] == 'X']
    if not pairs:
        return None, shorts
    kinds = set()
    for i, j in pairs:
        if shorts and (bogus(i) or bogus(j)):
            kinds.add('planarise_short_segment')
        elif near_end_crossing(i, j) or affected(i) or affected(j):
            kinds.add('planarise_crossing_within_tolerance')
        else:
            return None, shorts
    return ('planarise_short_segment' if 'planarise_short_segment' in kinds else 'planarise_crossing_within_tolerance'), shorts


def plan_case_lines(k, g, ls, pos=None):
    """driver input for one planarise case: exact values of the dumped doubles, all multiplied by one power of two per graph so
    that they are integers (exact; a similarity of the plane, under which every clause of planarise_spec is invariant)"""
    rn = [(l.split()[1], Fraction(float(l.split()[2])), Fraction(float(l.split()[3]))) for l in ls if l.startswith('N ')]
    scale = max([1] + [x.denominator for _, a, b in rn for x in (a, b)])
    out = ['P %d' % k]
    pos = pos or g['pos']
    out += ['O %d %s %s' % (i, hexq(pos[i][0] * scale), hexq(pos[i][1] * scale)) for i in range(g['n'])]
    out += ['F %d %d' % e for e in g['edges']]
    out += ['N %s %s %s' % (nm, hexq(a * scale), hexq(b * scale)) for nm, a, b in rn]
    out += [l for l in ls if l.startswith('E ')]
    out.append('end')
    return out


def run_planarise(res, rng, tier, tmp, drv, hist):
    """orthogonal routing + OrthoPlanariser::planarise on generated graphs; the extracted verified checker planarise_ok decides"""
    exe = C.build_harness('c19_plan', LIBS, FLAVOR)
    graphs = gen_plan_graphs(rng, tier)
    pf = os.path.join(tmp, 'plan.txt')
    open(pf, 'w').write('\n'.join(l for g in graphs for l in plan_lines(g)) + '\n')
    rc, out, err, dt = C.sh([exe, pf], timeout=2400)
    cases = split_cases(out)
    ph = {'graphs': len(graphs), 'by_kind': {}, 'by_router': {}, 'max_nodes': 0, 'input_edges': 0, 'routed_bends': 0, 'result_nodes': 0,
          'result_edges': 0, 'new_nodes': 0, 'ok': 0, 'routing_failed': {}, 'harness_s': round(dt, 2)}
    hist['planarise'] = ph
    if rc != 0:
        k = max(cases) if cases else 0
        d = plan_txt(graphs[min(k, len(graphs) - 1)])
        d.update({'what': 'harness c19_plan crashed (rc %d) while routing/planarising this graph' % rc, 'stderr': err[-1500:],
                  'replay': 'harness/c19_plan.cpp <file with harness_input>'})
        res.violation(d)
        return 1
    R2 = 1000000          # checker case id of the second round of graph k: R2 + k
    def rounds_of(k):
        ls = cases.get(k, [])
        if 'ROUND 2' in ls:
            i = ls.index('ROUND 2')
            return ls[:i], ls[i + 1:]
        return ls, None
    df = os.path.join(tmp, 'plan_chk.txt')
    with open(df, 'w') as fh:
        for k, g in enumerate(graphs):
            l1, l2 = rounds_of(k)
            fh.write('\n'.join(plan_case_lines(k, g, l1)) + '\n')
            if l2 is not None:
                fh.write('\n'.join(plan_case_lines(R2 + k, g, l2, g['pos2'])) + '\n')
    c_out, dt = run_driver([drv, 'plan', df])
    ph['checker_s'] = round(dt, 2)
    verdict = {}
    for line in c_out.split('\n'):
        f = line.split()
        if len(f) >= 2:
            verdict[int(f[0])] = f[1:]
    nviol, samples = 0, []
    ph.update({'second_rounds_requested': 0, 'second_rounds_planarised': 0, 'second_round_ok': 0, 'second_round_edges_same_bend_count_new_bends': 0,
               'second_round_not_reached': 0})
    units = []
    for k, g in enumerate(graphs):
        l1, l2 = rounds_of(k)
        units.append((k, g, 1, l1, None))
        if g.get('pos2'):
            ph['second_rounds_requested'] += 1
            if l2 is not None:
                units.append((k, g, 2, l2, l1))
            else:
                ph['second_round_not_reached'] += 1       # round 1 failed (reported for round 1) or routing failed
    for k, g, rnd, ls, ls_prev in units:
      if rnd == 1:
        ph['by_kind'][g['kind']] = ph['by_kind'].get(g['kind'], 0) + 1
        ph['by_router'][str(g['router'])] = ph['by_router'].get(str(g['router']), 0) + 1
        ph['max_nodes'] = max(ph['max_nodes'], g['n'])
        ph['input_edges'] += len(g['edges'])
      if True:
        rn = [l for l in ls if l.startswith('N ')]
        re_ = [l for l in ls if l.startswith('E ')]
        ph['routed_bends'] += sum(int(l.split()[3]) - 2 for l in ls if l.startswith('R '))
        ph['result_nodes'] += len(rn)
        ph['result_edges'] += len(re_)
        ph['new_nodes'] += sum(1 for l in rn if l.endswith(' 0'))
        v = verdict.get(k if rnd == 1 else R2 + k, ['missing'])
        exc = [l for l in ls if l.startswith('EXC') or l.startswith('CRASH')]
        routed = any(l.startswith('R ') for l in ls)
        bad, fp = None, None
        lost = []
        if rnd == 2:
            ph['second_rounds_planarised'] += 1 if routed else 0
            r1 = [l.split() for l in ls_prev if l.startswith('R ')]
            r2 = [l.split() for l in ls if l.startswith('R ')]
            # edges whose route lost ALL its bends between the rounds (>= 3 route points before, 2 now)
            lost = ['%s-%s' % (a[1], a[2]) for a, b in zip(r1, r2) if int(a[3]) >= 3 and int(b[3]) == 2]
            ph['second_round_edges_same_bend_count_new_bends'] += sum(1 for a, b in zip(r1, r2) if int(a[3]) >= 3 and a[3] == b[3] and a[4:] != b[4:])
        if exc and exc[0].startswith('CRASH') and not routed:
            exc = ['EXC-ROUTE process died while routing: ' + exc[0]]
        if exc and exc[0].startswith('EXC-ROUTE'):
            # libavoid failed while routing (e.g. the nudging assertion that is a known finding of C15/C14): there is no
            # orthogonally routed graph, so the property has nothing to judge; counted, and bounded below
            m = re.search(r'expression: (.*?)\s+at line', exc[0])
            key = (m.group(1) if m else re.sub(r'^EXC-ROUTE ', '', exc[0]))[:100]
            ph['routing_failed'][key] = ph['routing_failed'].get(key, 0) + 1
        elif exc:
            bad = 'OrthoPlanariser::planarise raised an assertion/exception: ' + exc[0][:300]
            # known finding replanarise_after_route_lost_bends: std::out_of_range from map::at in the SECOND planarisation of a Graph
            # object AND some edge's route lost all its bends between the two rounds
            if rnd == 2 and 'map::at' in exc[0] and exc[0].startswith('EXC ') and lost:
                fp = 'replanarise_after_route_lost_bends'
                bad += ' (second planarisation of the same Graph object; edges whose route became bend-free since the first: %s)' % ' '.join(lost[:8])
                ph['known_' + fp] = ph.get('known_' + fp, 0) + 1
        elif v[0] == 'ok':
            ph['ok'] += 1
            if rnd == 2:
                ph['second_round_ok'] += 1
                if lost:
                    ph['second_round_ok_although_bends_lost'] = ph.get('second_round_ok_although_bends_lost', 0) + 1
        elif v[0] == 'BAD':
            flags = dict(x.split('=') for x in v[1:5])
            what = []
            if flags.get('nodup') == '0':
                what.append('node ids of the planarised graph are not distinct')
            if flags.get('present') == '0':
                what.append('an original node is missing from the planarised graph or has moved')
            if flags.get('nocross') == '0':
                xs = [v[i + 1] for i in range(len(v) - 1) if v[i] == 'X']
                what.append('edges of the planarised graph cross or overlap (or join unknown nodes): pairs of result-edge indices ' + ' '.join(xs[:8]))
            if flags.get('chains') == '0':
                cs = [v[i + 1] for i in range(len(v) - 1) if v[i] == 'C']
                what.append('former neighbours are not connected through a chain of new nodes: original edges ' + ' '.join(cs[:8]))
            bad = 'OrthoPlanariser::planarise output fails the verified checker planarise_ok: ' + '; '.join(what)
            fp, shorts = classify_plan_failure(ls, v)
            if fp:
                ph['known_' + fp] = ph.get('known_' + fp, 0) + 1
        else:
            bad = 'no verdict from the checker (%s)' % ' '.join(v)
        if bad and (fp or nviol < 3):
            d = plan_txt(g)
            if rnd == 2:
                bad = 'SECOND planarisation of the same Graph object (after nodes moved and the edges were routed again): ' + bad
            d.update({'what': bad, 'round': rnd, 'implementation_output': ls[:3000], 'checker': ' '.join(v)[:600],
                      'replay': 'harness/c19_plan.cpp <file with harness_input>; extract/c19_driver.ml plan <O/F/N/E lines as exact rationals>'})
            if rnd == 2:
                d['first_round_output'] = ls_prev[:3000]
            if res.violation(d, fingerprint=fp):
                nviol += 1
        if rnd == 1 and k % 23 == 3 and len(samples) < 3:
            samples.append({'graph': plan_txt(g), 'implementation_output': ls[:12], 'checker': v[0]})
    ph['samples'] = samples
    nfail = sum(ph['routing_failed'].values())
    if nfail * 5 > len(graphs) and nviol == 0:
        res.violation({'what': 'orthogonal routing failed on %d of %d generated graphs: the planarise part of the property is hardly exercised' % (nfail, len(graphs)),
                       'routing_failed': ph['routing_failed']}, no_input=True)
        nviol += 1
    return nviol


def write_graphs(path, graphs):
    with open(path, 'w') as fh:
        for kind, n, peel, es in graphs:
            fh.write('G %d %d\n' % (n, peel))
            for a, b in es:
                fh.write('e %d %d\n' % (a, b))


def split_cases(txt):
    cases, cur = {}, None
    for line in txt.split('\n'):
        if line.startswith('## '):
            cur = []
            cases[int(line[3:])] = cur
        elif cur is not None and line:
            cur.append(line)
    return cases


def graph_txt(g):
    kind, n, peel, es = g
    return {'kind': kind, 'nodes': n, 'edges': ['%d-%d' % e for e in es],
            'harness_input': ['G %d %d' % (n, peel)] + ['e %d %d' % e for e in es]}


def run(tier):
    res = C.Result(PID, tier, 'proof')
    info = C.prove(res, PID)
    res.assumptions = ['the hand model PeelModel.v describes dialect::peel / Graph::getConnComps (compared exactly on every generated graph)',
                       'node ids handed out by Node::allocate increase (checked by the harness), so that id order = input order',
                       'symmetricLayout and planarise are not modelled: verified checkers judge the real outputs of the generated inputs only',
                       'planarise: the doubles of one output are multiplied by one power of two before the checker sees them (exact; '
                       'every clause of planarise_spec is invariant under that similarity)']
    rng = C.SplitMix64(C.get_seed())
    exe = C.build_harness('c19_peel', LIBS, FLAVOR)
    drv = C.ocaml_build('c19', 'C19.v', 'c19_driver.ml', 'c19_model.ml')
    tmp = tempfile.mkdtemp(prefix='c19-')
    graphs = gen_graphs(rng, tier)
    gf = os.path.join(tmp, 'graphs.txt')
    write_graphs(gf, graphs)
    rc, h_out, err, dt = C.sh([exe, gf], timeout=1200)
    if rc != 0:
        # find the graph at which the harness died
        done = split_cases(h_out)
        k = max(done) if done else 0
        res.violation({'what': 'harness c19_peel crashed (rc %d) while processing this graph' % rc, 'graph': graph_txt(graphs[min(k, len(graphs) - 1)]),
                       'stderr': err[-1500:], 'replay': 'harness/c19_peel.cpp <file with harness_input>'})
        return res.finish()
    of = os.path.join(tmp, 'out.txt')
    open(of, 'w').write(h_out)
    m_out, dt = run_driver([drv, 'model', gf])
    c_out, dt = run_driver([drv, 'check', gf, of])
    H, M = split_cases(h_out), split_cases(m_out)
    verdict = {}
    for line in c_out.split('\n'):
        f = line.split()
        if len(f) >= 3:
            verdict[int(f[0])] = f[1:]
    evals, corr_diffs, prop_viol = 0, [], 0
    hist = {'graphs': len(graphs), 'by_kind': {}, 'peeled': 0, 'core_empty': 0, 'core_nonempty': 0, 'trees': 0, 'tree_nodes': 0,
            'components_runs': 0, 'disconnected': 0, 'max_nodes': 0, 'symmetric_layouts': 0}
    samples = []
    reported = set()
    for k, g in enumerate(graphs):
        kind, n, peel, es = g
        hist['by_kind'][kind] = hist['by_kind'].get(kind, 0) + 1
        hist['max_nodes'] = max(hist['max_nodes'], n)
        h = H.get(k, [])
        m = M.get(k, [])
        v = verdict.get(k, ['missing'])
        evals += 1 + peel
        hist['components_runs'] += 1
        hl = [l for l in h if l.split()[0] in ('cc', 'core', 'tree')]
        bad = None
        if any(l.startswith('EXC') for l in h):
            bad = 'the library raised an assertion/exception: ' + [l for l in h if l.startswith('EXC')][0][:300]
        elif v[0] != 'cc-ok':
            bad = 'Graph::getConnComps output fails the verified checker conncomps_okb (%s)' % v[0]
        elif ('ccedges %d' % len(es)) not in h:
            bad = 'the component graphs of getConnComps do not contain every edge exactly once: ' + ' '.join(l for l in h if l.startswith('ccedges'))
        elif peel and v[1] != 'peel-ok':
            bad = 'dialect::peel output fails the verified checker peel_okb (%s)' % v[1]
        else:
            sym = [l for l in h if l.startswith('sym ')]
            hist['symmetric_layouts'] += len(sym)
            bs = [l for l in sym if not l.endswith(' ok')]
            if bs:
                bad = 'Tree::symmetricLayout: ' + bs[0]
        if bad and len(reported) < 3:
            reported.add(k)
            d = graph_txt(g)
            d.update({'what': bad, 'implementation_output': h[:40], 'model_output': m[:40], 'checker': v,
                      'replay': 'harness/c19_peel.cpp <file with harness_input>'})
            res.violation(d)
            prop_viol += 1
        if hl != m and len(corr_diffs) < 5:
            d = graph_txt(g); d.update({'implementation': hl[:30], 'model': m[:30]})
            corr_diffs.append(d)
        if peel:
            hist['peeled'] += 1
            core = [l for l in hl if l.startswith('core')]
            if core and core[0].split(';')[0].strip() == 'core':
                hist['core_empty'] += 1
            else:
                hist['core_nonempty'] += 1
            ts = [l for l in hl if l.startswith('tree')]
            hist['trees'] += len(ts)
            hist['tree_nodes'] += sum(len(t.split(';')[1].split(',')) for t in ts)
        else:
            hist['disconnected'] += 1
        if k % 131 == 5 and len(samples) < 5:
            samples.append({'graph': graph_txt(g), 'implementation_output': hl[:12]})
    # the edgeless corner (max degree 0) in a process of its own: peel() indexes the degree-1 bucket unconditionally
    ef = os.path.join(tmp, 'edgeless.txt')
    open(ef, 'w').write('G 1 1\n')
    rc, e_out, err, dt = C.sh([exe, ef], timeout=120)
    rc2, e_mod, _, _ = C.sh([drv, 'model', ef], timeout=120)
    evals += 1
    eh = [l for l in split_cases(e_out).get(0, []) if l.split()[0] in ('cc', 'core', 'tree')]
    em = split_cases(e_mod).get(0, [])
    if rc != 0 or eh != em:
        res.violation({'what': 'dialect::peel on a graph without edges (one isolated node): %s; expected (model): no trees, core = the node'
                               % ('harness died with rc %d' % rc if rc != 0 else 'output differs from the model'),
                       'graph': {'nodes': 1, 'edges': []}, 'harness_input': ['G 1 1'], 'implementation_output': eh, 'model_output': em,
                       'note': 'NodeBuckets sizes m_buckets(maxDegree+1) and takeLeaves reads m_buckets[1] (peeling.cpp:112-134)',
                       'replay': 'harness/c19_peel.cpp <file containing "G 1 1">'})
    hist['edgeless_run'] = 'rc %d' % rc
    # V: Tree::symmetricLayout, node boxes judged by the verified checker tree_layout_ok
    prop_viol += run_trees(res, rng.fork(), tier, tmp, drv, hist)
    evals += hist['symmetric_layout_boxes']['trees']
    # V: orthogonal routing + OrthoPlanariser::planarise, judged by the verified checker planarise_ok
    prop_viol += run_planarise(res, rng.fork(), tier, tmp, drv, hist)
    evals += hist['planarise']['graphs']
    nontriv = hist['trees'] + hist['disconnected'] + hist['symmetric_layout_boxes']['trees'] + hist['planarise']['ok']
    res.cov.update({'evaluations': evals, 'distinct_nontrivial': nontriv,
                    'rule': 'one evaluation per getConnComps run and per peel run; non-trivial = number of trees peeled off (each compared '
                            'node-for-node, edge-for-edge, root) + disconnected graphs decomposed',
                    'samples': samples, 'traces_validated_against_impl': evals, 'input_distribution': hist,
                    'correspondence_disagreements': corr_diffs[:5],
                    'v_only': 'Tree::symmetricLayout (tree_layout_ok: no two node boxes overlap) and OrthoPlanariser::planarise '
                              '(planarise_ok) are judged on real outputs by extracted checkers proved sound and complete; the C++ is not modelled'})
    if prop_viol == 0 and (not info['ok'] or corr_diffs):
        res.violation({'what': 'proof obligation or model/implementation correspondence no longer checks; the verified checkers found no '
                               'failing input among %d graphs' % len(graphs),
                       'broken_files': info.get('broken'), 'broken_lemmas': info.get('broken_lemmas'), 'forbidden': info.get('forbidden'),
                       'correspondence_disagreements': corr_diffs[:5], 'coq_log_tail': info['log'][-3000:]}, no_input=True)
    shutil.rmtree(tmp, ignore_errors=True)
    return res.finish()


def replay(path):
    print(open(path).read())
    return 0


def warm():
    C.build_harness('c19_peel', LIBS, FLAVOR)
    C.build_harness('c19_tree', LIBS, FLAVOR)
    C.build_harness('c19_plan', LIBS, FLAVOR)
    C.ocaml_build('c19', 'C19.v', 'c19_driver.ml', 'c19_model.ml')


META = {
    'property_id': PID,
    'level_claimed': {
        'category': 'proof',
        'text': 'PROOF (Coq, hand model of dialect::peel and Graph::getConnComps, for EVERY connected simple graph, no size bound): '
                'peel_nodes_partition (core nodes and stem leaves pairwise distinct; with the stem roots they are exactly the input nodes; '
                'with a non-empty core every root is a core node or a later leaf), peel_edges_partition (up to orientation each input edge '
                'is a core edge or the edge of exactly one stem; the double-centre pop_back is what makes this true), peel_core_no_leaves, '
                'peel_trees_are_trees (the trees returned by peel partition the stem nodes, each is connected by its own edges, closed, and a '
                'forest built by pendant-edge attachment; forest_acyclic: such a forest has no cycle = every edge is a bridge), '
                'peel_root_unique (the node identifyRootNode picks by the tree serial numbers is never peeled as a leaf, every other node of '
                'its tree is a peeled leaf, and with a non-empty core it is a core node and the only node the tree shares with the core), '
                'conncomps_partition, explore_reach, explore_fuel_adequate (the exploration fuel always suffices). '
                'PROOF (checker correctness, Coq): peel_okb_iff / conncomps_okb_iff (the checkers run on the real peel / getConnComps outputs '
                'are sound and complete for the declarative conditions: node and edge partition, every tree connected and acyclic, roots the '
                'only shared nodes, no degree-1 core node), via tree_char (a connected graph is acyclic iff |E|+1=|V|); tree_layout_ok_iff '
                '(no two node boxes share an interior point); meet_b_ok (open segments share a point: proper crossing or collinear overlap) and '
                'planarise_ok_iff (ids distinct, original nodes present in place, open result edges pairwise disjoint, every original edge '
                'replaced by a chain of new nodes). '
                'Tie: exact comparison of the peel/conncomps model with the compiled library on generated graphs every run (C) + the verified '
                'checkers on the real outputs of peel, getConnComps, Tree::symmetricLayout and OrthoPlanariser::planarise (V).',
        'design_ref': 'DESIGN.md 5.19'},
    'level_note': 'What is proof about the CODE (through the hand model, tied by exact correspondence): peeling and connected components, '
                  'including root choice. What is V-ONLY (verified oracle on sampled real outputs, the C++ itself not modelled): '
                  'Tree::symmetricLayout (trees <= 40 nodes with 90x20 / 20x90 / 30x30 / mixed boxes, 4 growth directions, convex and concave '
                  'ordering, nodeSep 5-20) and LeaflessOrthoRouter|RoutingAdapter + OrthoPlanariser::planarise (connected graphs <= 60 nodes on '
                  'grids, jittered grids, circles, K4-K7, dense). A source change there shows only as a checker rejecting a real output. '
                  'Known findings on the unchanged tree, each a classifier predicate in this file: tree_rank_collision (ranks rankSep apart '
                  'between centres whatever the node extents), planarise_short_segment and planarise_crossing_within_tolerance (sorting '
                  'tolerances 0.8 / 1.0 of computeCrossings leave crossings / overlaps next to segment ends), replanarise_after_route_lost_bends '
                  '(exception map::at in the second planarise() of one Graph object AND an edge whose route went from >= 3 to 2 points between the rounds). '
                  'Second rounds: graphs <= 12 nodes are moved (new lattice jitter), routed again and planarised again on the SAME Graph object; the explicit '
                  'family (40 / 300 graphs, 4-15 nodes) uses Edge::setRoute with L / Z routes in both rounds; both results go through planarise_ok. '
                  'Graphs on which libavoid fails while '
                  'routing (nudging assertion or SIGSEGV at orthogonal.cpp:3206, a C15 known finding) are outside the domain (no routed graph): '
                  'counted in the evidence, the check fails if they exceed 20%. '
                  'NodeBuckets bookkeeping is abstracted to "degree = 1 now" (compared exactly); faces.cpp is not covered. '
                  'Trusted: Coq kernel; the hand model PeelModel.v; extraction + OCaml/C++ drivers; the exact double->rational conversion and the '
                  'per-graph power-of-two scaling of planarise coordinates in this file. No axioms (Print Assumptions: closed). No fuel '
                  'exhaustion can make a theorem true: statements require Ok/Some, and explore_fuel_adequate shows the checkers never run dry.',
    'technique': 'Coq proof (loop invariant over leaf-stripping rounds, reachability, forest construction, serial-number invariant, edge-count '
                 'characterisation of trees, exact segment-intersection decider over Q) over a hand-written Gallina model + exact correspondence '
                 'with the compiled C++ + extracted checkers proved sound and complete, run on real outputs',
}
