#!/usr/bin/env python3
"""run every registered quick check over several seeds; print a table (exit status, VIOLATION lines, wall time)"""
import sys, os, json, subprocess, time
ROOT = os.path.dirname(os.path.dirname(os.path.abspath(__file__)))
man = json.load(open(os.path.join(ROOT, 'MANIFEST.json')))
seeds = [int(x) for x in (sys.argv[1].split(',') if len(sys.argv) > 1 else ['1', '2', '3'])]
only = sys.argv[2].split(',') if len(sys.argv) > 2 else None
for c in man['checks']:
    pid = c['property_id']
    if only and pid not in only:
        continue
    for s in seeds:
        t0 = time.time()
        p = subprocess.run(c['quick_cmd'], shell=True, cwd=ROOT, env=dict(os.environ, VERIF_SEED=str(s), VERIF_TIER='quick'),
                           stdout=subprocess.PIPE, stderr=subprocess.PIPE, text=True)
        v = [l for l in p.stdout.split('\n') if l.startswith('VIOLATION')]
        k = [l for l in p.stdout.split('\n') if l.startswith('KNOWN-FINDING')]
        print('%s seed=%d rc=%d violations=%d known=%d wall=%.1fs' % (pid, s, p.returncode, len(v), len(k), time.time() - t0), flush=True)
        if p.returncode not in (0,):
            print('   ', (p.stdout + p.stderr)[-600:].replace('\n', '\n    '))
