#!/bin/bash
# confirm_seed.sh <outdir with patch.diff demo.cpp> <name> [extra g++ flags/libs for the demo]
# Confirms a seeded change in a scratch worktree: applies, builds, whole suite passes, demo FAILs with it and PASSes without.
set -u
OUT=$1; NAME=$2; shift 2
W=/tmp/confirm-$NAME
LOG=$OUT/confirm.log
rm -rf $W; mkdir -p $W
git -C /repo worktree add -q $W/wt HEAD || exit 9
rsync -a --ignore-existing /repo/cola/ $W/wt/cola/
{
echo "== confirm $NAME at $(git -C /repo log --format=%h -1)"
cd $W/wt && git apply --check $OUT/patch.diff && git apply $OUT/patch.diff || { echo "PATCH DOES NOT APPLY"; exit 8; }
git -C $W/wt diff --stat
cd $W/wt/cola && make -k -j16 check > $W/check.log 2>&1
echo "suite with change: $(grep -E '^# (TOTAL|PASS|FAIL|ERROR)' $W/check.log | paste -sd' ')"
grep -E '^(FAIL|ERROR):' $W/check.log | head
LIBS="$W/wt/cola/libdialect/.libs/libdialect.a $W/wt/cola/libcola/.libs/libcola.a $W/wt/cola/libtopology/.libs/libtopology.a $W/wt/cola/libavoid/.libs/libavoid.a $W/wt/cola/libvpsc/.libs/libvpsc.a"
g++ -std=gnu++11 -O1 -g -I$W/wt/cola "$@" $OUT/demo.cpp -Wl,--start-group $LIBS -Wl,--end-group -o $W/demo_mod 2>&1 | tail -3
(cd $OUT && timeout 600 $W/demo_mod > $W/demo_mod.out 2>&1; echo "demo with change: exit $?"; tail -3 $W/demo_mod.out)
cd $W/wt && git checkout -- . && cd cola && make -k -j16 > $W/rebuild.log 2>&1
g++ -std=gnu++11 -O1 -g -I$W/wt/cola "$@" $OUT/demo.cpp -Wl,--start-group $LIBS -Wl,--end-group -o $W/demo_orig 2>&1 | tail -3
(cd $OUT && timeout 600 $W/demo_orig > $W/demo_orig.out 2>&1; echo "demo without change: exit $?"; tail -3 $W/demo_orig.out)
} > $LOG 2>&1
git -C /repo worktree remove --force $W/wt
rm -rf $W
cat $LOG
