#!/usr/bin/env python3
"""assemble MANIFEST.json from checks/cNN.py META dictionaries"""
import sys, os, json, glob, importlib
ROOT = os.path.dirname(os.path.dirname(os.path.abspath(__file__)))
sys.path.insert(0, ROOT)
props = [json.loads(l) for l in open(os.path.join(ROOT, 'properties.jsonl'))]
checks, na = [], []
NA_REASONS = json.load(open(os.path.join(ROOT, 'tools', 'not_applicable.json')))
hooks = json.load(open(os.path.join(ROOT, 'tools', 'hooks.json')))
for p in props:
    pid = p['id']
    f = os.path.join(ROOT, 'checks', pid.lower() + '.py')
    meta = None
    if os.path.exists(f):
        m = importlib.import_module('checks.' + pid.lower())
        meta = getattr(m, 'META', None)
    if meta is None:
        na.append({'property_id': pid, 'reason': NA_REASONS.get(pid, 'no check registered yet (work in progress; see DESIGN.md section 5 for the plan)')})
        continue
    c = {'property_id': pid,
         'quick_cmd': './check %s --tier quick' % pid,
         'thorough_cmd': './check %s --tier thorough' % pid,
         'evidence_file': '/verif/evidence/%s.json' % pid,
         'replay_cmd_template': './check %s --replay {path}' % pid,
         'engine': 'coq-proof',
         'level_claimed': meta['level_claimed'], 'level_note': meta['level_note'], 'technique': meta['technique']}
    checks.append(c)
man = {'version': 1, 'setup_cmd': './setup.sh',
       'hooks': hooks,
       'engines': [{'name': 'coq-proof', 'path': '/verif/check',
                    'serves_properties': [c['property_id'] for c in checks],
                    'kind_free_text': 'Coq 8.16.1 theorems over models tied to /repo by the cpp2v translator and/or executable correspondence (extracted OCaml vs compiled C++)'}],
       'checks': checks, 'not_applicable': na,
       'notes': 'See DESIGN.md. Every check regenerates the translated Gallina from /repo, rebuilds the proofs (make, full .vo), rebuilds the C++ side from the working tree, and runs the correspondence.'}
json.dump(man, open(os.path.join(ROOT, 'MANIFEST.json'), 'w'), indent=1)
print('MANIFEST.json: %d checks, %d not_applicable' % (len(checks), len(na)))

# keep the generated per-property status in step with the manifest
import subprocess as _sp
_sp.run(['python3', os.path.join(os.path.dirname(os.path.abspath(__file__)), 'status_table.py')], check=False)
