#!/usr/bin/env python3
"""print the prompt for an independent 'seeded change' sub-agent for one property (gets only the property text)"""
import sys, json
pid, n = sys.argv[1], sys.argv[2]
props = {json.loads(l)['id']: json.loads(l) for l in open('/verif/properties.jsonl')}
p = props[pid]
d = '/tmp/seed-%s-%s' % (pid, n)
print(f"""You are an independent adversary testing how well a (hidden) verification harness guards one semantic property of the C++ project mjwybrow/adaptagrams (checked out at /repo; libraries under /repo/cola: libvpsc, libavoid, libcola, libtopology, libdialect). You get ONLY the property text below. Do NOT read, list or search anything under /verif (that would make your work useless), and do not modify /repo itself.

PROPERTY {pid}: {p['title']}
Statement: {p['statement']}
Quantifier: {p['quantifier']['text']}
Why the existing tests cannot settle it: {p['why_tests_cant']}
Code anchors: {json.dumps(p['anchors'].get('files'))}; mechanisms: {json.dumps(p['anchors'].get('mechanism'))}

YOUR TASK: produce TWO different, realistic source changes (the kind of regression a maintainer could plausibly introduce: an off-by-one, a wrong comparison, a dropped update, a reordered step, a stale cache, two cooperating sites that each look fine alone) to the library sources (cola/lib*/*.cpp or *.h — not the tests, not the build system), each of which BREAKS the property above while the code still compiles and the ENTIRE existing test suite still passes. Prefer changes that need something specific to manifest — a particular multi-step sequence of API calls, an unusual/degenerate input, a particular configuration, or two cooperating edits — not ones that ordinary use or the existing tests expose at once. The two changes must break the property through different mechanisms.

Setup (do exactly this; work only inside {d}):
  mkdir -p {d}/out1 {d}/out2
  git -C /repo worktree add {d}/wt HEAD
  rsync -a --ignore-existing /repo/cola/ {d}/wt/cola/      # brings the autotools build files and objects; sources get rebuilt
  cd {d}/wt/cola && make -k -j8 check > {d}/baseline.log 2>&1   # ~5 min; baseline must show only PASS (grep '^# FAIL' / '^FAIL:')
For each change k in 1,2:
  1. edit the sources in {d}/wt, rebuild and run the whole suite (`make -k -j8 check`), and make sure every test still passes (count of `# FAIL:  0` in every sub-directory summary; no `FAIL:`/`ERROR:` lines).
  2. write a demonstration: a small self-contained C++ program {d}/out<k>/demo.cpp that uses only the public API of the libraries, exits 0 / prints PASS on the unmodified code and exits non-zero / prints FAIL (showing the property violated, with the concrete input) on the modified code. Build it against the worktree's freshly built static libraries, e.g.
       g++ -std=gnu++11 -I{d}/wt/cola demo.cpp {d}/wt/cola/libavoid/.libs/libavoid.a ... -o demo
     (link order when several are needed: libdialect libcola libtopology libavoid libvpsc; libvpsc headers need <cstddef> and <cfloat> included first). Verify BOTH states yourself: with the change (FAIL) and after `git stash` / reverting the change and rebuilding (PASS).
  3. save into {d}/out<k>/: patch.diff (`git -C {d}/wt diff` of ONLY this change), demo.cpp, README.txt (exact build+run commands, observed output in both states, which tests you ran and their result), and meta.json with keys: property ("{pid}"), title (short), what_it_breaks, needs_to_manifest (the specific sequence/input/configuration required), files_touched.
  4. `git -C {d}/wt checkout -- .` before starting the next change.
When done leave {d}/wt in the clean state (no local modifications) and do NOT remove it. Your final message: for each change a 3-line summary (what, why tests still pass, what the demo shows) and the paths. If after a serious attempt you cannot find a second (or any) change that passes the suite, say so plainly rather than handing in something that fails tests.""")
