#!/usr/bin/env python3
"""prompt for a later-round 'seeded change' adversary: tools/seed_prompt_n.py <PID> <round>; lists the mechanisms already used"""
import sys, json, glob, subprocess, re
pid, n = sys.argv[1], sys.argv[2]
base = subprocess.run(['python3', '/verif/tools/seed_prompt.py', pid, n], capture_output=True, text=True).stdout
used = []
for m in sorted(glob.glob('/verif/seeded/%s-*/meta.json' % pid)):
    try:
        used.append('"%s"' % json.load(open(m)).get('title', '').strip())
    except Exception:
        pass
hdr = ''
if used:
    hdr = ('ALREADY USED in earlier rounds (do NOT repeat these mechanisms or near-variants of them; look in OTHER functions / files / '
           'clauses of the property, other configurations and options, other entry points): ' + '; '.join(used) + '.\n\n')
base = base.replace('YOUR TASK:', hdr + 'YOUR TASK:', 1)
base = base.replace('not the tests, not the build system)', 'not the tests, not the build system; leave any `#ifdef ADAPTAGRAMS_VERIF` instrumentation blocks alone)')
base = base.replace('Verify BOTH states yourself: with the change (FAIL) and after `git stash` / reverting the change and rebuilding (PASS).',
    'NEVER use `git stash` (the stash is shared by all worktrees of /repo and other agents are working in parallel); revert with `git diff > saved.patch; git checkout -- .` and re-apply with `git apply saved.patch`. Verify BOTH states yourself: with the change (FAIL) and after reverting the change and rebuilding (PASS).')
print(base)
