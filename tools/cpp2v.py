#!/usr/bin/env python3
"""cpp2v: translate a restricted fragment of C++ (clang JSON AST) into Gallina.

Usage: cpp2v.py <spec.json | dir of per-module specs> <outdir> [--repo /repo] [--only Mod1,Mod2]

The spec lists modules; each module names a source file and the functions to translate.
The generated file coq/theories/Gen/<Module>.v contains one Definition per function, plus
a comment with the source location and a hash of the source text.  Anything outside the
fragment raises Unsupported and the module is emitted with the function replaced by a
comment `(* UNSUPPORTED f: reason *)`; the caller treats that as a broken obligation.

Modelling decisions (DESIGN 3.1/3.2):  double -> Q (exact), integers -> Z, bool -> bool,
Avoid::Point -> pt, Polygon / std::vector<Point> -> list pt.  Reference / pointer
parameters that are written become extra results (the function returns a tuple
(ret, out1, ...)).  COLA_ASSERT(e) becomes a conjunct of `<f>_pre`.
"""
import sys, os, json, subprocess, hashlib, re
from fractions import Fraction
from concurrent.futures import ThreadPoolExecutor


class Unsupported(Exception):
    pass


# ----------------------------------------------------------------------------- AST loading
def clang_dump(repo, srcfile, name, extra_flags=()):
    cmd = ['clang++', '-std=gnu++11', '-I' + os.path.join(repo, 'cola'), '-fsyntax-only', '-w',
           '-Xclang', '-ast-dump=json', '-Xclang', '-ast-dump-filter=' + name] + list(extra_flags) + \
          [os.path.join(repo, 'cola', srcfile)]
    p = subprocess.run(cmd, stdout=subprocess.PIPE, stderr=subprocess.PIPE, text=True)
    if p.returncode != 0:
        raise Unsupported('clang failed on %s: %s' % (srcfile, p.stderr[:400]))
    docs = []
    dec = json.JSONDecoder()
    s = p.stdout
    i = 0
    while i < len(s):
        while i < len(s) and s[i].isspace():
            i += 1
        if i >= len(s):
            break
        d, j = dec.raw_decode(s, i)
        docs.append(d)
        i = j
    return docs


def has_body(d):
    return any(c.get('kind') == 'CompoundStmt' for c in d.get('inner', []))


def qt(n):
    return n.get('type', {}).get('qualType', '')


def strip_type(t):
    t = t.replace('const ', '').replace('Avoid::', '').replace('vpsc::', '').replace('std::', '')
    t = t.replace('topology::', '').replace('dialect::', '').replace('cola::', '')
    t = t.strip()
    isref = t.endswith('&')
    isptr = t.endswith('*')
    t = t.rstrip('&*').strip()
    return t, isref, isptr


INT_TYPES = {'int', 'unsigned int', 'unsigned', 'size_t', 'long', 'unsigned long', 'short', 'char',
             'ConnDirFlags', 'ConnDirFlag', 'unsigned short', 'vector::size_type', 'size_type'}
LIST_PT_TYPES = {'Polygon', 'PolygonInterface', 'vector<Point>', 'vector<Avoid::Point>',
                 'vector<Point, allocator<Point>>', 'vector<Point, allocator<Point> >'}


class Ctx:
    def __init__(self, spec):
        self.enums = spec.get('enum_types', {})  # C++ enum type name -> treated as Z
        self.records = spec.get('records', {})   # C++ record name -> {coq:..., fields:{f: [coqproj, type]}}
        self.opaque = spec.get('opaque_calls', {})
        self.consts = {}                          # global const name -> (coq name)
        self.funcs = {}                           # C++ function name -> (coq name, ret type, [param types], outs)
        self.skip_if_contains = spec.get('skip_stmt_containing', [])
        self.static_classes = spec.get('static_classes', [])  # (additive) classes whose translated methods are static: no `this`

    def map_type(self, t):
        b, isref, isptr = strip_type(t)
        if b == 'double' or b == 'float':
            return 'Q'
        if b == 'bool':
            return 'bool'
        if b in INT_TYPES or b in self.enums:
            return 'Z'
        if b == 'Point':
            return 'pt'
        if b in LIST_PT_TYPES:
            return 'list pt'
        if b in self.records:
            return self.records[b]['coq']
        if b == 'void':
            return 'unit'
        raise Unsupported('type ' + t)


DEFAULTS = {'Q': '0%Q', 'Z': '0%Z', 'bool': 'false', 'pt': 'pt0', 'list pt': '(@nil pt)', 'unit': 'tt'}


def default_of(ty, ctx):
    if ty in DEFAULTS:
        return DEFAULTS[ty]
    for r in ctx.records.values():
        if r['coq'] == ty:
            return r['default']
    raise Unsupported('no default for ' + ty)


def q_literal(v):
    f = Fraction(float(v))
    if f.denominator == 1:
        return '(inject_Z (%d))' % f.numerator if f.numerator < 0 else '(inject_Z %d)' % f.numerator
    return '((%d) # %d)' % (f.numerator, f.denominator)


# ----------------------------------------------------------------------------- function translation
class FnTr:
    def __init__(self, ctx, decl, coqname, cls=None):
        self.ctx = ctx
        self.decl = decl
        self.coqname = coqname
        self.cls = cls
        self.counter = {}
        self.pre = []          # precondition conjuncts (from COLA_ASSERT), as (coq bool expr) closed over params
        self.vartypes = {}     # C++ var id -> coq type
        self.names = {}        # C++ var id -> base name
        self.alias = {}        # var id -> lvalue (base id, path)
        self.extra_params = []  # opaque inputs (name, type)
        self.ret_ty = None
        self.outs = []         # list of var ids that are written reference/pointer params
        self.params = []
        self.assert_mode = False   # (additive) emit `<f>_asserts_ok : ... -> bool`: true iff every COLA_ASSERT met on the path taken holds
        self.loop_depth = 0

    def fresh(self, base):
        base = re.sub(r'[^A-Za-z0-9_]', '_', base)
        if base in ('by', 'at', 'in', 'as', 'if', 'fun', 'end', 'let', 'fix', 'with', 'then', 'else', 'return',
                    'match', 'Type', 'Set', 'Prop', 'exists', 'forall', 'using', 'where', 'mod', 'IF', 'of'):
            base = base + '_'
        n = self.counter.get(base, 0)
        self.counter[base] = n + 1
        return base if n == 0 else '%s_%d' % (base, n)

    # ---- expressions: return (coq string, coq type)
    def expr(self, n, env):
        k = n.get('kind')
        inner = n.get('inner', [])
        if k == 'CXXDefaultArgExpr':
            raise Unsupported('default argument outside a call to a translated function')
        if k in ('ParenExpr', 'ConstantExpr', 'ExprWithCleanups', 'MaterializeTemporaryExpr',
                 'CXXBindTemporaryExpr'):
            return self.expr(inner[0], env)
        if k == 'CXXFunctionalCastExpr' or k == 'CXXStaticCastExpr' or k == 'CStyleCastExpr':
            return self.cast(n, env)
        if k == 'ImplicitCastExpr':
            return self.cast(n, env)
        if k == 'IntegerLiteral':
            v = int(n['value'])
            return ('(%d)%%Z' % v, 'Z')
        if k == 'CXXBoolLiteralExpr':
            return ('true' if n['value'] else 'false', 'bool')
        if k == 'FloatingLiteral':
            return (q_literal(n['value']), 'Q')
        if k == 'DeclRefExpr':
            ref = n['referencedDecl']
            rid = ref['id']
            if ref['kind'] == 'EnumConstantDecl':
                nm = ref['name']
                if nm in self.ctx.consts:
                    return (self.ctx.consts[nm], 'Z')
                raise Unsupported('enum constant %s not declared in spec.constants' % nm)
            if rid in env:
                return self.read_lv((rid, []), env)
            if rid in self.alias:
                return self.read_lv(self.alias[rid], env)
            nm = ref.get('name')
            if nm in self.ctx.consts:
                return (self.ctx.consts[nm], self.ctx.const_types[nm])
            raise Unsupported('reference to unknown variable ' + str(nm))
        if k == 'MemberExpr':
            return self.member(n, env)
        if k == 'CXXThisExpr':
            if 'this' in env:
                return (env['this'], self.vartypes['this'])
            raise Unsupported('this')
        if k == 'UnaryOperator':
            op = n['opcode']
            e, t = self.expr(inner[0], env)
            if op == '-':
                return ('(- %s)%%%s' % (e, t), t) if t in ('Q', 'Z') else self.bad('unary - on ' + t)
            if op == '+':
                return (e, t)
            if op == '!':
                e = self.to_bool(e, t)
                return ('(negb %s)' % e, 'bool')
            if op == '*':
                return (e, t)   # pointer parameters are modelled by value
            self.bad('unary ' + op)
        if k == 'BinaryOperator':
            return self.binop(n, env)
        if k == 'ConditionalOperator':
            c, ct = self.expr(inner[0], env)
            c = self.to_bool(c, ct)
            a, at = self.expr(inner[1], env)
            b, bt = self.expr(inner[2], env)
            a, b, t = self.unify(a, at, b, bt)
            return ('(if %s then %s else %s)' % (c, a, b), t)
        if k == 'CallExpr':
            return self.call(n, env)
        if k == 'CXXMemberCallExpr':
            return self.membercall(n, env)
        if k == 'CXXOperatorCallExpr':
            return self.opcall(n, env)
        if k in ('CXXConstructExpr', 'CXXTemporaryObjectExpr'):   # (additive) `T(a, b)` as a temporary: same as a constructor call
            if len(inner) == 1:
                e, t = self.expr(inner[0], env)
                tt = self.ctx.map_type(qt(n))
                if tt == t:
                    return (e, t)
            if len(inner) == 0:
                tt = self.ctx.map_type(qt(n))
                return (default_of(tt, self.ctx), tt)
            if len(inner) == 2 and self.ctx.map_type(qt(n)) == 'pt':
                a, at = self.expr(inner[0], env)
                b, bt = self.expr(inner[1], env)
                return ('(mkpt %s %s)' % (self.to_q(a, at), self.to_q(b, bt)), 'pt')
            self.bad('constructor ' + qt(n))
        self.bad('expression kind ' + str(k))

    def bad(self, msg):
        raise Unsupported(msg)

    def to_bool(self, e, t):
        if t == 'bool':
            return e
        if t == 'Z':
            return '(negb (Z.eqb %s 0))' % e
        self.bad('condition of type ' + t)

    def to_q(self, e, t):
        if t == 'Q':
            return e
        if t == 'Z':
            return '(inject_Z %s)' % e
        self.bad('expected number, got ' + t)

    def unify(self, a, at, b, bt):
        if at == bt:
            return a, b, at
        if {at, bt} == {'Q', 'Z'}:
            return self.to_q(a, at), self.to_q(b, bt), 'Q'
        if {at, bt} == {'bool', 'Z'}:
            f = lambda e, t: e if t == 'Z' else '(if %s then 1 else 0)%%Z' % e
            return f(a, at), f(b, bt), 'Z'
        self.bad('cannot unify %s and %s' % (at, bt))

    def cast(self, n, env):
        ck = n.get('castKind')
        e, t = self.expr(n['inner'][0], env)
        if ck in ('LValueToRValue', 'NoOp', 'FunctionToPointerDecay', 'ArrayToPointerDecay',
                  'ConstructorConversion', 'DerivedToBase', 'UncheckedDerivedToBase', 'UserDefinedConversion'):
            return (e, t)
        if ck == 'IntegralCast':
            if t == 'bool':
                return ('(if %s then 1 else 0)%%Z' % e, 'Z')
            return (e, t)
        if ck == 'IntegralToFloating':
            return (self.to_q(e, t if t != 'bool' else self.bad('bool to float')), 'Q')
        if ck == 'IntegralToBoolean':
            return (self.to_bool(e, t), 'bool')
        if ck == 'FloatingToBoolean':
            return ('(Qneb %s 0)' % e, 'bool')
        if ck == 'ToVoid':
            return ('tt', 'unit')
        if ck == 'FloatingCast':
            return (e, t)
        self.bad('cast ' + str(ck))

    def member(self, n, env):
        base = n['inner'][0]
        name = n['name']
        lv = self.try_lvalue(n, env)
        if lv is not None:
            return self.read_lv(lv, env)
        e, t = self.expr(base, env)
        return self.proj(e, t, name)

    def proj(self, e, t, name):
        if t == 'pt' and name in ('x', 'y'):
            return ('(p%s %s)' % (name, e), 'Q')
        if t == 'list pt' and name == 'ps':
            return (e, t)
        for r in self.ctx.records.values():
            if r['coq'] == t and name in r['fields']:
                pj, ft = r['fields'][name]
                return ('(%s %s)' % (pj, e), ft)
        self.bad('member .%s of %s' % (name, t))

    # lvalues: (base var id, [path elems]) where elem = ('f', name) | ('i', coq index expr)
    def try_lvalue(self, n, env):
        k = n.get('kind')
        inner = n.get('inner', [])
        if k in ('ParenExpr',):
            return self.try_lvalue(inner[0], env)
        if k == 'ImplicitCastExpr' and n.get('castKind') in ('NoOp', 'DerivedToBase', 'UncheckedDerivedToBase', 'LValueToRValue'):
            return self.try_lvalue(inner[0], env)
        if k == 'DeclRefExpr':
            rid = n['referencedDecl']['id']
            if rid in env:
                return (rid, [])
            if rid in self.alias:
                return self.alias[rid]
            return None
        if k == 'CXXThisExpr':
            return ('this', []) if 'this' in env else None
        if k == 'UnaryOperator' and n['opcode'] == '*':
            return self.try_lvalue(inner[0], env)
        if k == 'MemberExpr':
            b = self.try_lvalue(inner[0], env)
            if b is None:
                return None
            return (b[0], b[1] + [('f', n['name'])])
        if k == 'CXXOperatorCallExpr':
            callee = inner[0]
            opname = self.callee_name(callee)
            if opname == 'operator[]':
                b = self.try_lvalue(inner[1], env)
                if b is None:
                    return None
                ie, it = self.expr(inner[2], env)
                return (b[0], b[1] + [('i', ie)])
        if k == 'ArraySubscriptExpr':
            b = self.try_lvalue(inner[0], env)
            if b is None:
                return None
            ie, it = self.expr(inner[1], env)
            return (b[0], b[1] + [('i', ie)])
        return None

    def read_lv(self, lv, env):
        base, path = lv
        e, t = env[base], self.vartypes[base]
        for kind, a in path:
            if kind == 'f':
                e, t = self.proj(e, t, a)
            else:
                if t == 'list pt':
                    e, t = '(znth pt0 %s %s)' % (e, a), 'pt'
                else:
                    self.bad('index into ' + t)
        return (e, t)

    def write_lv(self, lv, val, vt, env):
        """returns (base id, new coq value for whole base var)"""
        base, path = lv

        def upd(e, t, path):
            if not path:
                if t == 'Q' and vt == 'Z':
                    return self.to_q(val, vt)
                if t == 'Z' and vt == 'bool':
                    return '(if %s then 1 else 0)%%Z' % val
                if t != vt:
                    self.bad('assign %s to %s' % (vt, t))
                return val
            kind, a = path[0]
            if kind == 'f':
                if t == 'pt':
                    sub, st = self.proj(e, t, a)
                    nv = upd(sub, st, path[1:])
                    return '(mkpt %s (py %s))' % (nv, e) if a == 'x' else '(mkpt (px %s) %s)' % (e, nv)
                if t == 'list pt' and a == 'ps':
                    return upd(e, t, path[1:])
                for r in self.ctx.records.values():
                    if r['coq'] == t and a in r['fields']:
                        sub, st = self.proj(e, t, a)
                        nv = upd(sub, st, path[1:])
                        return '(%s %s %s)' % (r['setters'][a], e, nv)
                self.bad('field update .%s of %s' % (a, t))
            else:
                if t == 'list pt':
                    sub = '(znth pt0 %s %s)' % (e, a)
                    nv = upd(sub, 'pt', path[1:])
                    return '(zupd %s %s %s)' % (e, a, nv)
                self.bad('index update of ' + t)
        return base, upd(env[base], self.vartypes[base], path)

    def binop(self, n, env):
        op = n['opcode']
        l, r = n['inner'][0], n['inner'][1]
        if op in ('==', '!='):
            def unbool(m):
                if m.get('kind') == 'ImplicitCastExpr' and m.get('castKind') == 'IntegralCast' and \
                        qt(m['inner'][0]) == 'bool':
                    return m['inner'][0]
                return None
            if unbool(l) is not None and unbool(r) is not None:
                l, r = unbool(l), unbool(r)
        a, at = self.expr(l, env)
        b, bt = self.expr(r, env)
        if op in ('&&', '||'):
            a = self.to_bool(a, at)
            b = self.to_bool(b, bt)
            return ('(%s %s %s)' % ('andb' if op == '&&' else 'orb', a, b), 'bool')
        if op in ('+', '-', '*', '/'):
            a, b, t = self.unify(a, at, b, bt)
            if t == 'bool':
                a, b, t = '(if %s then 1 else 0)%%Z' % a, '(if %s then 1 else 0)%%Z' % b, 'Z'
            if t == 'Q':
                return ('(%s %s %s)%%Q' % (a, op, b), 'Q')
            if t == 'Z':
                if op == '/':
                    return ('(Z.quot %s %s)' % (a, b), 'Z')
                return ('(%s %s %s)%%Z' % (a, op, b), 'Z')
            self.bad('arith on ' + t)
        if op == '%':
            if at == 'Z' and bt == 'Z':
                return ('(Z.rem %s %s)' % (a, b), 'Z')
            self.bad('% on non-int')
        if op in ('&', '|', '^'):
            if {at, bt} == {'Z', 'bool'}:
                a, b, _ = self.unify(a, at, b, bt)
                at = bt = 'Z'
            if at == 'Z' and bt == 'Z':
                f = {'&': 'Z.land', '|': 'Z.lor', '^': 'Z.lxor'}[op]
                return ('(%s %s %s)' % (f, a, b), 'Z')
            if at == 'bool' and bt == 'bool':
                f = {'&': 'andb', '|': 'orb', '^': 'xorb'}[op]
                return ('(%s %s %s)' % (f, a, b), 'bool')
            self.bad('bitop on ' + at)
        if op in ('<', '>', '<=', '>=', '==', '!='):
            a, b, t = self.unify(a, at, b, bt)
            if t == 'Q':
                f = {'<': 'Qltb', '>': 'Qgtb', '<=': 'Qleb', '>=': 'Qgeb', '==': 'Qeqb', '!=': 'Qneb'}[op]
                return ('(%s %s %s)' % (f, a, b), 'bool')
            if t == 'Z':
                f = {'<': 'Z.ltb', '>': 'Z.gtb', '<=': 'Z.leb', '>=': 'Z.geb', '==': 'Z.eqb'}.get(op)
                if op == '!=':
                    return ('(negb (Z.eqb %s %s))' % (a, b), 'bool')
                return ('(%s %s %s)' % (f, a, b), 'bool')
            if t == 'bool':
                if op == '==':
                    return ('(Bool.eqb %s %s)' % (a, b), 'bool')
                if op == '!=':
                    return ('(xorb %s %s)' % (a, b), 'bool')
            if t == 'pt':
                if op == '==':
                    return ('(pt_eqb %s %s)' % (a, b), 'bool')
                if op == '!=':
                    return ('(negb (pt_eqb %s %s))' % (a, b), 'bool')
            self.bad('comparison %s on %s' % (op, t))
        if op == ',':
            return (b, bt)
        self.bad('binary operator ' + op)

    def callee_name(self, c):
        while c.get('kind') in ('ImplicitCastExpr', 'ParenExpr'):
            c = c['inner'][0]
        if c.get('kind') == 'DeclRefExpr':
            return c['referencedDecl'].get('name')
        if c.get('kind') == 'MemberExpr':
            return c.get('name')
        return None

    def call(self, n, env):
        inner = n['inner']
        name = self.callee_name(inner[0])
        args = inner[1:]
        if name in ('fabs', 'abs') and len(args) == 1:
            e, t = self.expr(args[0], env)
            if t == 'Q':
                return ('(Qabs\' %s)' % e, 'Q')
            if t == 'Z':
                return ('(Z.abs %s)' % e, 'Z')
        if name in ('min', 'max') and len(args) == 2:
            a, at = self.expr(args[0], env)
            b, bt = self.expr(args[1], env)
            a, b, t = self.unify(a, at, b, bt)
            if t == 'Q':
                return ("(Q%s' %s %s)" % (name, a, b), 'Q')
            if t == 'Z':
                return ('(Z.%s %s %s)' % (name, a, b), 'Z')
        if name == 'epsilon' and not args:
            return ('(1 # 4503599627370496)', 'Q')
        if name in self.ctx.funcs:
            return self.user_call(name, args, env)
        self.bad('call to ' + str(name))

    def user_call(self, name, args, env, this=None):
        info = self.ctx.funcs[name]
        es = []
        if this is not None:
            es.append(this)
        for ai, (a, pty) in enumerate(zip(args, info['ptypes'])):
            if a.get('kind') == 'CXXDefaultArgExpr':
                dv = info.get('defaults', {}).get(ai)
                if dv is None:
                    self.bad('no default value known for parameter %d of %s' % (ai, name))
                e, t = dv
            else:
                e, t = self.expr(a, env)
            if pty == 'Q':
                e = self.to_q(e, t)
            elif pty == 'bool':
                e = self.to_bool(e, t)
            elif pty != t:
                self.bad('argument type %s for %s in call to %s' % (t, pty, name))
            es.append(e)
        if len(args) != len(info['ptypes']):
            self.bad('arity of call to ' + name)
        call = '(%s %s)' % (info['coq'], ' '.join(es)) if es else info['coq']
        if info['outs']:
            # record which argument lvalues receive the outs
            lvs = []
            for idx in info['outs']:
                lv = self.try_lvalue(args[idx], env)
                if lv is None:
                    self.bad('out-argument of %s is not an lvalue' % name)
                lvs.append(lv)
            return (call, ('tuple', info['ret'], [info['ptypes'][i] for i in info['outs']], lvs))
        return (call, info['ret'])

    def membercall(self, n, env):
        inner = n['inner']
        callee = inner[0]
        while callee.get('kind') in ('ImplicitCastExpr', 'ParenExpr'):
            callee = callee['inner'][0]
        if callee.get('kind') != 'MemberExpr':
            self.bad('member call shape')
        name = callee['name']
        obj = callee['inner'][0]
        args = inner[1:]
        key = self.src_key(n)
        if key in self.ctx.opaque:
            return self.opaque_input(self.ctx.opaque[key])
        oe, ot = self.expr(obj, env)
        if ot == 'list pt' and name == 'size' and not args:
            return ('(zlen %s)' % oe, 'Z')
        if ot == 'list pt' and name == 'at' and len(args) == 1:
            ie, it = self.expr(args[0], env)
            return ('(znth pt0 %s %s)' % (oe, ie), 'pt')
        if ot == 'list pt' and name == 'empty' and not args:
            return ('(Z.eqb (zlen %s) 0)' % oe, 'bool')
        qn = (self.cls + '::' + name) if self.cls else name
        for cand in (qn, name):
            if cand in self.ctx.funcs and self.ctx.funcs[cand].get('method'):
                return self.user_call(cand, args, env, this=oe)
        self.bad('member call .%s on %s' % (name, ot))

    def src_key(self, n):
        """(additive) source text of a call expression with all whitespace removed, e.g. `u->finalPos()`;
        used as the key of spec.opaque_calls.  None when the text cannot be recovered."""
        src = getattr(self, 'src_bytes', None)
        if src is None or not self.ctx.opaque:
            return None
        try:
            b = n['range']['begin']
            e = n['range']['end']
            bo = b['offset'] if 'offset' in b else b['expansionLoc']['offset']
            eo = (e['offset'] + e.get('tokLen', 1)) if 'offset' in e else (e['expansionLoc']['offset'] + e['expansionLoc'].get('tokLen', 1))
            return re.sub(r'\s+', '', src[bo:eo].decode('utf8', 'replace'))
        except (KeyError, TypeError):
            return None

    def opaque_input(self, spec):
        """spec = [name, type]           -> a named extra input (parameter) of the translated function
           spec = [expr, type, "expr"]   -> (additive) a Coq expression; the word `this` in it stands for the object"""
        if len(spec) >= 3 and spec[2] == 'expr':
            e, ty = spec[0], spec[1]
            if 'this' in self.vartypes and re.search(r'\bthis\b', e):
                # `this` is never reassigned in the supported fragment unless it is an out; use the current name
                e = re.sub(r'\bthis\b', 'this', e)
            return (e, ty)
        nm, ty = spec[0], spec[1]
        if (nm, ty) not in self.extra_params:
            self.extra_params.append((nm, ty))
        return (nm, ty)

    def opcall(self, n, env):
        inner = n['inner']
        opname = self.callee_name(inner[0])
        if opname == 'operator[]':
            lv = self.try_lvalue(n, env)
            if lv is not None:
                return self.read_lv(lv, env)
            oe, ot = self.expr(inner[1], env)
            ie, it = self.expr(inner[2], env)
            if ot == 'list pt':
                return ('(znth pt0 %s %s)' % (oe, ie), 'pt')
        if opname in ('operator==', 'operator!='):
            a, at = self.expr(inner[1], env)
            b, bt = self.expr(inner[2], env)
            if at == 'pt' and bt == 'pt':
                if 'Point::operator==' in self.ctx.funcs:
                    e = '(%s %s %s)' % (self.ctx.funcs['Point::operator==']['coq'], a, b)
                else:
                    e = '(pt_eqb %s %s)' % (a, b)
                return (e if opname == 'operator==' else '(negb %s)' % e, 'bool')
        self.bad('operator call ' + str(opname))

    # ---- statements
    def is_assert(self, n):
        """the expansion of COLA_ASSERT / assert: ParenExpr(ConditionalOperator(cond, (void)0, __assert_fail(..)))
           returns the condition node or None"""
        m = n
        while m.get('kind') in ('ParenExpr',):
            m = m['inner'][0]
        if m.get('kind') == 'ConditionalOperator':
            els = m['inner'][2]
            s = json.dumps(els)
            if '__assert_fail' in s or 'CriticalFailure' in s:
                return m['inner'][0]
        if m.get('kind') == 'IfStmt':
            s = json.dumps(m['inner'][1])
            # (fix) only `if (!(e)) { throw CriticalFailure(..); }`: the then-branch must consist of the failure statement
            # alone; an ordinary `if` whose body merely CONTAINS an assertion is not an assertion.
            body = m['inner'][1]
            if body.get('kind') == 'CompoundStmt':
                kids = body.get('inner', [])
                body = kids[0] if len(kids) == 1 else None
            if body is None or body.get('kind') not in ('CXXThrowExpr', 'ExprWithCleanups', 'CallExpr'):
                return None
            if ('CriticalFailure' in s or '__assert_fail' in s) and len(m['inner']) == 2:
                c = m['inner'][0]
                return ('not', c)
            # (additive) `if (e) throw X(..);` without else: a contract check like a failed assertion - the negated condition is a
            # recorded precondition (before this, such a statement was silently dropped: Compass::compassDirection)
            if len(m['inner']) == 2 and '"kind": "CXXThrowExpr"' in s and body.get('kind') in ('CXXThrowExpr', 'ExprWithCleanups'):
                return ('not', m['inner'][0])
        return None

    def assigned(self, n, declared=None):
        """set of outer variable ids assigned inside statement n"""
        out = set()
        if declared is None:
            declared = set()

        def lvbase(e):
            while True:
                k = e.get('kind')
                if k in ('ParenExpr', 'ImplicitCastExpr', 'MemberExpr', 'ArraySubscriptExpr'):
                    e = e['inner'][0]
                elif k == 'UnaryOperator' and e['opcode'] == '*':
                    e = e['inner'][0]
                elif k == 'CXXOperatorCallExpr':
                    e = e['inner'][1]
                elif k == 'DeclRefExpr':
                    rid = e['referencedDecl']['id']
                    if rid in self.alias:
                        return self.alias[rid][0]
                    return rid
                elif k == 'CXXThisExpr':
                    return 'this'
                else:
                    return None

        def walk(m):
            if not isinstance(m, dict):
                return
            k = m.get('kind')
            if k == 'VarDecl':
                declared.add(m['id'])
            if k in ('BinaryOperator', 'CompoundAssignOperator') and (m['opcode'] == '=' or k == 'CompoundAssignOperator'):
                b = lvbase(m['inner'][0])
                if b is not None and b not in declared:
                    out.add(b)
            if k == 'UnaryOperator' and m['opcode'] in ('++', '--'):
                b = lvbase(m['inner'][0])
                if b is not None and b not in declared:
                    out.add(b)
            if k in ('CallExpr', 'CXXMemberCallExpr'):
                nm = self.callee_name(m['inner'][0])
                info = self.ctx.funcs.get(nm)
                if info and info['outs']:
                    for idx in info['outs']:
                        b = lvbase(m['inner'][1 + idx])
                        if b is not None and b not in declared:
                            out.add(b)
            for c in m.get('inner', []):
                walk(c)
        walk(n)
        return out

    def can_return(self, n):
        if not isinstance(n, dict):
            return False
        if n.get('kind') == 'ReturnStmt':
            return True
        if self.assert_mode and self.is_assert(n) is not None:
            return True     # (additive) in assert mode a failing assertion is an early exit
        return any(self.can_return(c) for c in n.get('inner', []))

    def can_break(self, n):
        """(additive) does statement n contain a `break` that belongs to the loop whose body n is part of (nested loops /
        switches are not entered)?"""
        if not isinstance(n, dict):
            return False
        k = n.get('kind')
        if k == 'BreakStmt':
            return True
        if k in ('ForStmt', 'WhileStmt', 'DoStmt', 'SwitchStmt', 'CXXForRangeStmt'):
            return False
        return any(self.can_break(c) for c in n.get('inner', []))

    def can_exit(self, n):
        return self.can_return(n) or (self.loop_depth > 0 and self.can_break(n))

    def falls_through(self, n):
        k = n.get('kind')
        if k == 'ReturnStmt':
            return False
        if k == 'BreakStmt':
            return False
        if k == 'CompoundStmt':
            for c in n.get('inner', []):
                if not self.falls_through(c):
                    return False
            return True
        if k == 'IfStmt':
            inner = n['inner']
            if len(inner) < 3:
                return True
            return self.falls_through(inner[1]) or self.falls_through(inner[2])
        return True

    def tuple_of(self, ids, env):
        if not ids:
            return 'tt'
        if len(ids) == 1:
            return env[ids[0]]
        return '(' + ', '.join(env[i] for i in ids) + ')'

    def bind_tuple(self, ids, env):
        """fresh names for ids; returns (pattern string, new env)"""
        env2 = dict(env)
        names = []
        for i in ids:
            nm = self.fresh(self.names[i])
            env2[i] = nm
            names.append(nm)
        if not ids:
            return '_', env2
        if len(ids) == 1:
            return names[0], env2
        return "'(" + ', '.join(names) + ')', env2

    def ret_value(self, e, t, env):
        if self.ret_ty == 'Q':
            e = self.to_q(e, t)
        elif self.ret_ty == 'bool':
            e = self.to_bool(e, t)
        elif self.ret_ty == 'Z' and t == 'bool':
            e = '(if %s then 1 else 0)%%Z' % e
        elif self.ret_ty != t:
            self.bad('return type %s vs %s' % (t, self.ret_ty))
        if self.outs:
            return '(' + ', '.join([e] + [env[o] for o in self.outs]) + ')'
        return e

    def stmts(self, lst, env, k):
        """translate statement list; k(env) gives the Coq term for what follows"""
        if not lst:
            return k(env)
        s, rest = lst[0], lst[1:]
        kr = lambda e: self.stmts(rest, e, k)
        return self.stmt(s, env, kr)

    def stmt(self, s, env, k):
        kind = s.get('kind')
        inner = s.get('inner', [])
        txt = None
        if self.ctx.skip_if_contains:
            txt = json.dumps(s)
            if any(w in txt for w in self.ctx.skip_if_contains):
                return k(env)
        if getattr(self.ctx, 'skip_pure', None) and kind != 'CompoundStmt':
            # (additive) skip a statement mentioning one of the words only if it is *pure*: it contains no return
            # and assigns no variable declared outside it (a logging statement); compound statements are entered.
            txt = json.dumps(s)
            if any(w in txt for w in self.ctx.skip_pure) and not self.can_return(s) and not self.assigned(s):
                return k(env)
        a = self.is_assert(s)
        if a is not None:
            neg = False
            if isinstance(a, tuple):
                neg, a = True, a[1]
            if self.assert_mode:
                if self.loop_depth > 0:
                    self.bad('assert inside a loop in assert mode')
                e, t = self.expr(a, env)
                e = self.to_bool(e, t)
                if neg:
                    e = '(negb %s)' % e
                return '(if %s then\n%s\nelse %s)' % (e, k(env), self.ret_value('false', 'bool', env))
            try:
                e, t = self.expr(a, env)
                e = self.to_bool(e, t)
                if neg:
                    e = '(negb %s)' % e
                self.pre.append(('expr', e))
            except Unsupported as ex:
                self.pre.append(('skip', str(ex)))
            return k(env)
        if kind == 'NullStmt':
            return k(env)
        if kind == 'BreakStmt':
            # (additive) only inside a counted loop translated with a `broke` flag (forstmt): what follows is dropped
            bk = getattr(self, 'break_k', None)
            if bk is None:
                self.bad('break outside a translated loop')
            return bk(env)
        if kind == 'CompoundStmt':
            return self.stmts(inner, env, k)
        if kind == 'DeclStmt':
            def go(ds, env):
                if not ds:
                    return k(env)
                d = ds[0]
                if d.get('kind') != 'VarDecl':
                    self.bad('declaration kind ' + d.get('kind'))
                # (additive) a function-local `static` keeps its value across calls: not a pure function of the arguments
                if d.get('storageClass') == 'static' and 'const' not in qt(d).split():
                    self.bad('static local variable %s (state kept across calls is outside the fragment)' % d.get('name'))
                t0 = qt(d)
                b, isref, isptr = strip_type(t0)
                init = [c for c in d.get('inner', []) if isinstance(c, dict) and c.get('kind')]
                if isref and init:
                    lv = self.try_lvalue(self.strip_casts(init[0]), env)
                    if lv is not None:
                        self.alias[d['id']] = lv
                        return go(ds[1:], env)
                ty = self.ctx.map_type(t0)
                self.vartypes[d['id']] = ty
                self.names[d['id']] = d['name']
                nm = self.fresh(d['name'])
                env2 = dict(env)
                env2[d['id']] = nm
                if init:
                    e, t = self.expr(init[0], env)
                    if isinstance(t, tuple):
                        self.bad('call with out-params in initialiser')
                    if ty == 'Q':
                        e = self.to_q(e, t)
                    elif ty == 'bool':
                        e = self.to_bool(e, t)
                    elif ty == 'Z' and t == 'bool':
                        e = '(if %s then 1 else 0)%%Z' % e
                    elif ty != t:
                        self.bad('init %s with %s' % (ty, t))
                else:
                    e = default_of(ty, self.ctx)
                return 'let %s : %s := %s in\n%s' % (nm, ty, e, go(ds[1:], env2))
            return go(inner, env)
        if kind == 'ReturnStmt':
            if self.assert_mode:
                return self.ret_value('true', 'bool', env)
            if not inner:
                return self.ret_value('tt', 'unit', env)
            e, t = self.expr(inner[0], env)
            if isinstance(t, tuple):
                # return f(..., &out): bind then return
                return self.bind_call(e, t, env, lambda env2, r, rt: self.ret_value(r, rt, env2))
            return self.ret_value(e, t, env)
        if kind == 'IfStmt':
            return self.ifstmt(s, env, k)
        if kind == 'SwitchStmt':
            return self.stmt(self.switch_as_ifs(s), env, k)
        if kind == 'ForStmt':
            return self.forstmt(s, env, k)
        if kind in ('BinaryOperator', 'CompoundAssignOperator', 'UnaryOperator', 'ParenExpr', 'ExprWithCleanups',
                    'CallExpr', 'CXXOperatorCallExpr', 'CXXMemberCallExpr', 'ImplicitCastExpr'):
            return self.exprstmt(s, env, k)
        self.bad('statement kind ' + str(kind))

    def switch_as_ifs(self, s):
        """(additive) restricted `switch`: the body is a list of `case C: return e;` (one label per case, no fall-through, no break) and an
        optional trailing `default: stmt`; rewritten into the equivalent chain `if (x == C1) return e1; else if ...; else stmt`."""
        kids = [c for c in s.get('inner', []) if isinstance(c, dict) and c.get('kind')]
        if len(kids) != 2 or kids[1].get('kind') != 'CompoundStmt':
            self.bad('switch with an init / condition variable or a non-compound body')
        cond, body = kids
        cases, default = [], None
        for c in body.get('inner', []):
            ck = c.get('kind')
            if default is not None:
                self.bad('switch: statements after the default label')
            if ck == 'CaseStmt':
                lab, sub = c['inner'][0], c['inner'][-1]
                if len(c['inner']) != 2 or sub.get('kind') != 'ReturnStmt':
                    self.bad('switch: a case that is not `case C: return e;` (fall-through, break or range)')
                while lab.get('kind') == 'ConstantExpr':
                    lab = lab['inner'][0]
                cases.append((lab, sub))
            elif ck == 'DefaultStmt':
                default = c['inner'][-1]
            else:
                self.bad('switch: statement kind %s between the labels' % ck)
        node = default
        for lab, sub in reversed(cases):
            test = {'kind': 'BinaryOperator', 'opcode': '==', 'type': {'qualType': 'bool'}, 'inner': [cond, lab]}
            node = {'kind': 'IfStmt', 'inner': [test, sub] + ([node] if node is not None else [])}
        if node is None:
            self.bad('empty switch')
        return node

    def strip_casts(self, n):
        while n.get('kind') in ('ImplicitCastExpr', 'ParenExpr', 'ExprWithCleanups', 'MaterializeTemporaryExpr'):
            n = n['inner'][0]
        return n

    def bind_call(self, call, t, env, k3):
        _, rty, otys, lvs = t
        rn = self.fresh('r')
        onames = [self.fresh('o') for _ in otys]
        pat = "'(" + ', '.join([rn] + onames) + ')'
        env2 = dict(env)
        lets = ''
        for on, oty, lv in zip(onames, otys, lvs):
            base, nv = self.write_lv(lv, on, oty, env2)
            nm = self.fresh(self.names[base])
            lets += 'let %s := %s in\n' % (nm, nv)
            env2[base] = nm
        return 'let %s := %s in\n%s%s' % (pat, call, lets, k3(env2, rn, rty))

    def exprstmt(self, s, env, k):
        s = self.strip_casts(s)
        kind = s.get('kind')
        inner = s.get('inner', [])
        if kind == 'BinaryOperator' and s['opcode'] == '=':
            lv = self.try_lvalue(inner[0], env)
            if lv is None:
                self.bad('assignment target')
            e, t = self.expr(inner[1], env)
            if isinstance(t, tuple):
                def k3(env2, r, rt):
                    base, nv = self.write_lv(lv, r, rt, env2)
                    nm = self.fresh(self.names[base])
                    env3 = dict(env2)
                    env3[base] = nm
                    return 'let %s := %s in\n%s' % (nm, nv, k(env3))
                return self.bind_call(e, t, env, k3)
            base, nv = self.write_lv(lv, e, t, env)
            nm = self.fresh(self.names[base])
            env2 = dict(env)
            env2[base] = nm
            return 'let %s := %s in\n%s' % (nm, nv, k(env2))
        if kind == 'CompoundAssignOperator':
            op = s['opcode'][:-1]
            lv = self.try_lvalue(inner[0], env)
            if lv is None:
                self.bad('assignment target')
            cur, ct = self.read_lv(lv, env)
            rhs = inner[1]
            if ct == 'bool' and op in ('|', '&', '^'):
                r0 = rhs
                while r0.get('kind') in ('ImplicitCastExpr', 'ParenExpr') and qt(r0) != 'bool':
                    r0 = r0['inner'][0]
                if qt(r0) == 'bool':
                    re_, rt_ = self.expr(r0, env)
                    f = {'|': 'orb', '&': 'andb', '^': 'xorb'}[op]
                    base, nv = self.write_lv(lv, '(%s %s %s)' % (f, cur, re_), 'bool', env)
                    nm = self.fresh(self.names[base])
                    env2 = dict(env)
                    env2[base] = nm
                    return 'let %s := %s in\n%s' % (nm, nv, k(env2))
            fake = {'kind': 'BinaryOperator', 'opcode': op, 'inner': [inner[0], inner[1]]}
            e, t = self.binop(fake, env)
            if ct == 'bool' and t == 'Z':
                e = self.to_bool(e, t)
                t = 'bool'
            base, nv = self.write_lv(lv, e, t, env)
            nm = self.fresh(self.names[base])
            env2 = dict(env)
            env2[base] = nm
            return 'let %s := %s in\n%s' % (nm, nv, k(env2))
        if kind == 'UnaryOperator' and s['opcode'] in ('++', '--'):
            lv = self.try_lvalue(inner[0], env)
            cur, ct = self.read_lv(lv, env)
            if ct != 'Z':
                self.bad('++ on ' + ct)
            e = '(%s %s 1)%%Z' % (cur, '+' if s['opcode'] == '++' else '-')
            base, nv = self.write_lv(lv, e, 'Z', env)
            nm = self.fresh(self.names[base])
            env2 = dict(env)
            env2[base] = nm
            return 'let %s := %s in\n%s' % (nm, nv, k(env2))
        if kind in ('CallExpr', 'CXXMemberCallExpr'):
            e, t = self.expr(s, env)
            if isinstance(t, tuple):
                return self.bind_call(e, t, env, lambda env2, r, rt: k(env2))
            return k(env)   # pure call, result unused
        self.bad('expression statement ' + str(kind))

    def ifstmt(self, s, env, k):
        inner = s['inner']
        if s.get('hasVar') or s.get('hasInit'):
            self.bad('if with declaration')
        c, ct = self.expr(inner[0], env)
        if isinstance(ct, tuple):
            # (additive) `if (f(.., out))`: bind the call's results first, then branch on the returned value
            return self.bind_call(c, ct, env, lambda env2, r, rt: self.ifstmt_c(s, self.to_bool(r, rt), env2, k))
        c = self.to_bool(c, ct)
        return self.ifstmt_c(s, c, env, k)

    def ifstmt_c(self, s, c, env, k):
        inner = s['inner']
        then_s = inner[1]
        else_s = inner[2] if len(inner) > 2 else {'kind': 'NullStmt'}
        if not self.can_exit(then_s) and not self.can_exit(else_s):
            ids = sorted(self.assigned(then_s) | self.assigned(else_s), key=lambda i: self.names.get(i, str(i)))
            ids = [i for i in ids if i in env]
            if not ids:
                return k(env)
            kt = lambda e: self.tuple_of(ids, e)
            a = self.stmt(then_s, env, kt)
            b = self.stmt(else_s, env, kt)
            pat, env2 = self.bind_tuple(ids, env)
            return 'let %s := (if %s then\n%s\nelse\n%s) in\n%s' % (pat, c, a, b, k(env2))
        ft, fe = self.falls_through(then_s), self.falls_through(else_s)
        if ft and fe:
            # both branches may fall through and at least one may return: join point, no duplication of k
            ids = sorted(self.assigned(then_s) | self.assigned(else_s), key=lambda i: self.names.get(i, str(i)))
            ids = [i for i in ids if i in env]
            old = self.ret_value
            # (additive) a join point NESTED inside a branch of another join point (e.g. `if (a) { if (b) return x; } else if (c)
            # { if (d) return y; } return z;`): `old` already wraps in `inl`; the inner join's own value must be `inl <plain return
            # value>` (its annotated type is full_ret_type + state) and its inl-case hands the finished value on to the enclosing
            # join as `inl r`.  Without nesting the output is what it always was.
            nested = getattr(old, '_join_base', None)
            base = nested if nested is not None else old

            def rv(e, t, env_):
                return '(inl %s)' % base(e, t, env_)
            rv._join_base = base
            self.ret_value = rv
            try:
                kt = lambda e: '(inr %s)' % self.tuple_of(ids, e)
                a = self.stmt(then_s, env, kt)
                b = self.stmt(else_s, env, kt)
            finally:
                self.ret_value = old
            pat, env2 = self.bind_tuple(ids, env)
            j = self.fresh('j')
            rn = self.fresh('r')
            return ('let %s : (%s + %s)%%type := (if %s then\n%s\nelse\n%s) in\nmatch %s with\n| inl %s => %s\n| inr %s =>\n%s\nend'
                    % (j, self.full_ret_type(), self.tuple_type(ids), c, a, b, j, rn,
                       ('(inl %s)' % rn if nested is not None else rn), pat.lstrip("'"), k(env2)))
        a = self.stmt(then_s, env, k if ft else (lambda e: self.unreachable()))
        b = self.stmt(else_s, env, k if fe else (lambda e: self.unreachable()))
        return '(if %s then\n%s\nelse\n%s)' % (c, a, b)

    def tuple_type(self, ids):
        if not ids:
            return 'unit'
        return '(' + ' * '.join(self.vartypes[i] for i in ids) + ')'

    def full_ret_type(self):
        if self.outs:
            return '(' + ' * '.join([self.ret_ty] + [self.vartypes[o] for o in self.outs]) + ')'
        return self.ret_ty

    def unreachable(self):
        return 'UNREACHABLE'

    def forstmt(self, s, env, k):
        inner = s['inner']
        # clang: [init, condvar(null {}), cond, inc, body]
        init, cond, inc, body = inner[0], inner[2], inner[3], inner[4]
        if init.get('kind') != 'DeclStmt' or len(init['inner']) != 1:
            self.bad('for-init shape')
        d = init['inner'][0]
        ivar = d['id']
        lo, lot = self.expr(d['inner'][0], env)
        if self.ctx.map_type(qt(d)) != 'Z':
            self.bad('loop variable type')
        cond = self.strip_casts(cond)
        if cond.get('kind') != 'BinaryOperator' or cond['opcode'] not in ('<', '<='):
            self.bad('for-condition shape')
        l = self.strip_casts(cond['inner'][0])
        if l.get('kind') != 'DeclRefExpr' or l['referencedDecl']['id'] != ivar:
            self.bad('for-condition variable')
        inc = self.strip_casts(inc)
        if inc.get('kind') != 'UnaryOperator' or inc['opcode'] != '++':
            self.bad('for-increment shape')
        asg = self.assigned(body)
        if ivar in asg:
            self.bad('loop variable assigned in body')
        hi, hit = self.expr(cond['inner'][1], env)
        # bound must not depend on variables assigned in the body
        bound_ids = set()

        def refs(m):
            if isinstance(m, dict):
                if m.get('kind') == 'DeclRefExpr':
                    rid = m['referencedDecl']['id']
                    bound_ids.add(self.alias[rid][0] if rid in self.alias else rid)
                for c in m.get('inner', []):
                    refs(c)
        refs(cond['inner'][1])
        if bound_ids & asg:
            # allowed only if the body does not change the *length* : we accept list updates via zupd
            for b in bound_ids & asg:
                if self.vartypes.get(b) != 'list pt':
                    self.bad('loop bound depends on a variable assigned in the body')
        if cond['opcode'] == '<=':
            hi = '(%s + 1)%%Z' % hi
        ids = sorted([i for i in asg if i in env], key=lambda i: self.names.get(i, str(i)))
        self.vartypes[ivar] = 'Z'
        self.names[ivar] = d['name']
        iname = self.fresh(d['name'])
        canret = self.can_return(body)
        pat, envb = self.bind_tuple(ids, env)
        envb[ivar] = iname
        stv = self.fresh('st')
        if self.can_break(body):
            # (additive) loop with `break` (and no return): state = (broke, vars); once broke, the remaining iterations are skipped
            if canret:
                self.bad('loop with both break and return')
            old_bk = getattr(self, 'break_k', None)
            self.break_k = lambda e: '(true, %s)' % self.tuple_of(ids, e)
            self.loop_depth += 1
            try:
                body_t = self.stmt(body, envb, lambda e: '(false, %s)' % self.tuple_of(ids, e))
            finally:
                self.loop_depth -= 1
                self.break_k = old_bk
            acc = 'fun (%s : (bool * %s)%%type) (%s : Z) => match %s with\n| (true, _) => %s\n| (false, %s) =>\n%s\nend' % (
                stv, self.tuple_type(ids), iname, stv, stv, pat.lstrip("'"), body_t)
            res = self.fresh('loop')
            pat2, env2 = self.bind_tuple(ids, env)
            return ('let %s := fold_left (%s) (zseq %s %s) (false, %s) in\nmatch %s with\n| (_, %s) =>\n%s\nend'
                    % (res, acc, lo, hi, self.tuple_of(ids, env), res, pat2.lstrip("'"), k(env2)))
        if canret:
            saved_ret = self.ret_value
            # inside the body, a return yields (Some r, state)
            body_t = self._loop_body(body, envb, ids, True)
            acc = 'fun (%s : (option %s * %s)%%type) (%s : Z) => match %s with\n| (Some _, _) => %s\n| (None, %s) =>\n%s\nend' % (
                stv, self.full_ret_type(), self.tuple_type(ids), iname, stv, stv, pat.lstrip("'"), body_t)
            res = self.fresh('loop')
            pat2, env2 = self.bind_tuple(ids, env)
            return ('let %s := fold_left (%s) (zseq %s %s) (None, %s) in\nmatch %s with\n| (Some r, _) => r\n| (None, %s) =>\n%s\nend'
                    % (res, acc, lo, hi, self.tuple_of(ids, env), res, pat2.lstrip("'"), k(env2)))
        else:
            body_t = self._loop_body(body, envb, ids, False)
            acc = 'fun (%s : %s) (%s : Z) => let %s := %s in\n%s' % (stv, self.tuple_type(ids), iname, pat, stv, body_t)
            pat2, env2 = self.bind_tuple(ids, env)
            return 'let %s := fold_left (%s) (zseq %s %s) %s in\n%s' % (
                pat2, acc, lo, hi, self.tuple_of(ids, env), k(env2))

    def _loop_body(self, body, envb, ids, canret):
        self.loop_depth += 1
        try:
            return self._loop_body0(body, envb, ids, canret)
        finally:
            self.loop_depth -= 1

    def _loop_body0(self, body, envb, ids, canret):
        if not canret:
            return self.stmt(body, envb, lambda e: self.tuple_of(ids, e))
        old = self.ret_value

        def rv(e, t, env):
            full = old(e, t, env)
            return '(Some %s, %s)' % (full, self.tuple_of(ids, env))
        self.ret_value = rv
        try:
            return self.stmt(body, envb, lambda e: '(None, %s)' % self.tuple_of(ids, e))
        finally:
            self.ret_value = old

    # ---- whole function
    def translate(self):
        d = self.decl
        params = [c for c in d.get('inner', []) if c.get('kind') == 'ParmVarDecl']
        body = [c for c in d.get('inner', []) if c.get('kind') == 'CompoundStmt'][0]
        fty = qt(d)
        rty = fty.split('(')[0].strip()
        self.ret_ty = self.ctx.map_type(rty)
        env = {}
        plist = []
        if self.cls and self.cls not in self.ctx.static_classes:
            rec = self.ctx.records.get(self.cls)
            if rec is None:
                if self.cls == 'Point':
                    ty = 'pt'
                else:
                    self.bad('class %s not in spec.records' % self.cls)
            else:
                ty = rec['coq']
            env['this'] = 'this'
            self.vartypes['this'] = ty
            self.names['this'] = 'this'
            self.counter['this'] = 1
            plist.append(('this', ty))
        written = self.assigned(body)
        pinfo = []
        for p in params:
            if 'name' not in p:
                self.bad('unnamed parameter')
            ty = self.ctx.map_type(qt(p))
            b, isref, isptr = strip_type(qt(p))
            nm = self.fresh(p['name'])
            env[p['id']] = nm
            self.vartypes[p['id']] = ty
            self.names[p['id']] = p['name']
            plist.append((nm, ty))
            is_out = (isref or isptr) and ('const ' + b not in qt(p).replace('Avoid::', '').replace('vpsc::', '')) and p['id'] in written
            pinfo.append((p, ty, is_out))
        self.outs = [p['id'] for p, ty, o in pinfo if o]
        if self.cls and 'this' in written:
            self.outs = ['this'] + self.outs
        self.params = plist
        if self.assert_mode:
            self.outs = []
            self.ret_ty = 'bool'
            DEFAULTS_bool_true = 'true'
        # implicit member access in methods: MemberExpr over CXXThisExpr is handled through env['this']
        end = lambda e: self.ret_value(default_of(self.ret_ty, self.ctx) if not self.assert_mode else 'true', self.ret_ty, e)
        term = self.stmts(body['inner'] if 'inner' in body else [], env, end)
        if 'UNREACHABLE' in term:
            term = term.replace('UNREACHABLE', self.ret_value(default_of(self.ret_ty, self.ctx) if not self.assert_mode else 'true', self.ret_ty, env))
        rt = self.ret_ty
        if self.outs:
            rt = '(' + ' * '.join([self.ret_ty] + [self.vartypes[o] for o in self.outs]) + ')%type'
        allp = plist + self.extra_params
        ps = ' '.join('(%s : %s)' % (n, t) for n, t in allp)
        out = 'Definition %s %s : %s :=\n%s.\n' % (self.coqname, ps, rt, term)
        return out, allp, rt

    # ---- (additive) a loop of a function that is otherwise outside the fragment
    def translate_fragment(self, fs):
        """fs = {"loop_calling": f, "params": [names], "result": [names]}: the unique innermost counted `for` loop of this
        function whose body calls f (directly, not inside a nested loop), together with the declarations of the variables the
        loop assigns.  Those declarations must stand in the SAME block as the loop, before it, with nothing in between
        assigning them (so `let v := init in fold ...` is what the C++ does on every execution of that block).  The free
        variables of the slice must be exactly `params` (their types are taken from their declarations); the value is the
        tuple of the `result` variables after the loop."""
        d = self.decl
        body = [c for c in d.get('inner', []) if c.get('kind') == 'CompoundStmt'][0]
        target = fs['loop_calling']

        def calls_target(n):
            if not isinstance(n, dict):
                return False
            if n.get('kind') in ('ForStmt', 'WhileStmt', 'DoStmt', 'CXXForRangeStmt'):
                return False
            if n.get('kind') in ('CallExpr', 'CXXMemberCallExpr') and n.get('inner') and self.callee_name(n['inner'][0]) == target:
                return True
            return any(calls_target(c) for c in n.get('inner', []))

        found = []

        def walk(n):
            if not isinstance(n, dict):
                return
            kids = n.get('inner', [])
            if n.get('kind') == 'CompoundStmt':
                for i, c in enumerate(kids):
                    if isinstance(c, dict) and c.get('kind') == 'ForStmt' and len(c.get('inner', [])) == 5 and calls_target(c['inner'][4]):
                        found.append((n, i, c))
            for c in kids:
                walk(c)
        walk(body)
        if len(found) != 1:
            self.bad('%d counted for-loops calling %s (expected exactly one)' % (len(found), target))
        comp, idx, loop = found[0]
        asg = self.assigned(loop['inner'][4])
        # declarations of the loop state
        decl_at = {}
        for i, c in enumerate(comp['inner'][:idx]):
            if c.get('kind') == 'DeclStmt':
                for v in c.get('inner', []):
                    if v.get('kind') == 'VarDecl':
                        decl_at[v['id']] = (i, c, v)
        state = []
        for vid in asg:
            if vid not in decl_at:
                self.bad('a variable assigned in the loop is not declared in the block of the loop, before the loop')
            i, ds, v = decl_at[vid]
            if len(ds['inner']) != 1:
                self.bad('loop state variable declared in a multi-declaration')
            for between in comp['inner'][i + 1:idx]:
                if vid in self.assigned(between):
                    self.bad('loop state variable %s is assigned between its declaration and the loop' % v['name'])
            state.append((i, ds, v))
        state.sort(key=lambda t: t[0])
        slice_stmts = [ds for (_, ds, _) in state] + [loop]
        # free variables
        inside = set()

        def decls(n):
            if isinstance(n, dict):
                if n.get('kind') in ('VarDecl',):
                    inside.add(n['id'])
                for c in n.get('inner', []):
                    decls(c)
        for st in slice_stmts:
            decls(st)
        free = {}

        def refs(n):
            if isinstance(n, dict):
                if n.get('kind') == 'DeclRefExpr':
                    r = n['referencedDecl']
                    if r.get('kind') in ('VarDecl', 'ParmVarDecl') and r['id'] not in inside:
                        free[r['id']] = r
                if n.get('kind') == 'CXXThisExpr':
                    self.bad('the loop uses `this`')
                for c in n.get('inner', []):
                    refs(c)
        for st in slice_stmts:
            refs(st)
        want = list(fs['params'])
        have = sorted(r['name'] for r in free.values())
        if sorted(want) != have:
            self.bad('free variables of the loop are %s, the spec expects %s' % (have, sorted(want)))
        env = {}
        plist = []
        byname = {r['name']: r for r in free.values()}
        for nm in want:
            r = byname[nm]
            ty = self.ctx.map_type(r.get('type', {}).get('qualType', ''))
            cn = self.fresh(nm)
            env[r['id']] = cn
            self.vartypes[r['id']] = ty
            self.names[r['id']] = nm
            plist.append((cn, ty))
        res_ids = []
        for nm in fs['result']:
            ids = [v['id'] for (_, _, v) in state if v['name'] == nm]
            if len(ids) != 1:
                self.bad('result variable %s is not a state variable of the loop' % nm)
            res_ids.append(ids[0])
        self.ret_ty = 'unit'
        self.outs = []
        term = self.stmts(slice_stmts, env, lambda e: self.tuple_of(res_ids, e))
        rt = self.tuple_type(res_ids).strip('()') if len(res_ids) == 1 else self.tuple_type(res_ids) + '%type'
        ps = ' '.join('(%s : %s)' % (n, t) for n, t in plist)
        out = 'Definition %s %s : %s :=\n%s.\n' % (self.coqname, ps, rt, term)
        return out, plist, rt, loop, [v['name'] for (_, _, v) in state]


# ---- (additive) decision slices: named local `bool` variables of a function that is otherwise outside the fragment ----------------
class FnTrDecisions(FnTr):
    """spec entry {"name": f, "coq": prefix, "locals": [v1, ..], "leaves": {"<C++ expression text>": [coq name, coq type], ..}}.
    For every named local variable v of f (a `bool`, declared exactly once, in a single-variable DeclStmt) the SLICE of v is its
    declaration together with the statements that follow it immediately in the same block and assign v and nothing else (no return /
    break inside).  Nothing outside its slice may assign v - so the value v has wherever the function reads it afterwards is the value
    at the end of the slice.  Inside a slice every sub-expression whose source text (white space removed) is a key of `leaves` is an
    opaque INPUT of the stated type (iterator / pointer reads such as `vert->dirs`, calls such as `vert->vert->id.isConnPt()`);
    everything else must be in the ordinary fragment and may refer only to leaves, translated constants and v itself.  Result: one
    definition `<prefix>_<v> (leaf inputs, in the order of the spec) : bool` per variable."""

    def __init__(self, ctx, decl, coqname, leaves, src_bytes):
        FnTr.__init__(self, ctx, decl, coqname, None)
        self.leaves = {re.sub(r'\s+', '', k_): v_ for k_, v_ in leaves.items()}
        self.src_bytes = src_bytes
        self.used_leaves = set()

    def node_text(self, n):
        try:
            b, e = n['range']['begin'], n['range']['end']
            bo = b['offset'] if 'offset' in b else b['expansionLoc']['offset']
            eo = (e['offset'] + e.get('tokLen', 1)) if 'offset' in e else (e['expansionLoc']['offset'] + e['expansionLoc'].get('tokLen', 1))
            return re.sub(r'\s+', '', self.src_bytes[bo:eo].decode('utf8', 'replace'))
        except (KeyError, TypeError):
            return None

    def expr(self, n, env):
        if isinstance(n, dict) and n.get('kind') not in ('ParenExpr',):
            t = self.node_text(n)
            if t is not None and t in self.leaves:
                nm, ty = self.leaves[t]
                self.used_leaves.add(t)
                return (nm, ty)
        return FnTr.expr(self, n, env)

    def slices(self, names):
        body = [c for c in self.decl.get('inner', []) if c.get('kind') == 'CompoundStmt'][0]
        found = {nm: [] for nm in names}

        def walk(n):
            if not isinstance(n, dict):
                return
            kids = n.get('inner', [])
            if n.get('kind') == 'CompoundStmt':
                for i, c in enumerate(kids):
                    if isinstance(c, dict) and c.get('kind') == 'DeclStmt':
                        vs = [v for v in c.get('inner', []) if v.get('kind') == 'VarDecl']
                        for v in vs:
                            if v.get('name') in found:
                                if len(vs) != 1:
                                    self.bad('%s is declared in a multi-declaration' % v['name'])
                                found[v['name']].append((n, i, c, v))
            for c in kids:
                walk(c)
        walk(body)
        out = []
        for nm in names:
            if len(found[nm]) != 1:
                self.bad('%d declarations of local %s (expected exactly one)' % (len(found[nm]), nm))
            comp, idx, ds, v = found[nm][0]
            if self.ctx.map_type(qt(v)) != 'bool':
                self.bad('local %s is not a bool' % nm)
            vid = v['id']
            sl = [ds]
            for st in comp['inner'][idx + 1:]:
                if not isinstance(st, dict) or self.assigned(st) != {vid} or self.can_return(st) or self.can_break(st):
                    break
                sl.append(st)
            inside = set()

            def ids_in(m):
                if isinstance(m, dict):
                    inside.add(id(m))
                    for c in m.get('inner', []):
                        ids_in(c)
            for st in sl:
                ids_in(st)

            def outside_assign(m):
                # a statement-level node outside the slice that assigns v
                if not isinstance(m, dict):
                    return False
                if id(m) in inside:
                    return False
                if m.get('kind') in ('BinaryOperator', 'CompoundAssignOperator', 'UnaryOperator') and vid in self.assigned(m):
                    return True
                return any(outside_assign(c) for c in m.get('inner', []))
            if outside_assign(body):
                self.bad('local %s is assigned outside its slice' % nm)
            out.append((nm, v, sl))
        return out

    def translate_decisions(self, names):
        params = []
        for key, (nm, ty) in self.leaves.items():
            if (nm, ty) not in params:
                params.append((nm, ty))
        res = []
        for nm, v, sl in self.slices(names):
            self.ret_ty = 'bool'
            self.outs = []
            env = {}
            term = self.stmts(sl, env, lambda e: e[v['id']])
            ps = ' '.join('(%s : %s)' % (n_, t_) for n_, t_ in params)
            res.append((nm, sl, 'Definition %s_%s %s : bool :=\n%s.\n' % (self.coqname, nm, ps, term)))
        unused = [k_ for k_ in self.leaves if k_ not in self.used_leaves]
        if unused:
            self.bad('leaf expressions that occur in no slice: %s' % unused)
        return res, params


def translate_const(ctx, repo, srcfile, name):
    docs = clang_dump(repo, srcfile, name)
    for d in docs:
        if d.get('kind') == 'VarDecl' and d.get('name') == name and d.get('inner'):
            tr = FnTr(ctx, d, name)
            e, t = tr.expr(d['inner'][0], {})
            ty = ctx.map_type(qt(d))
            if ty == 'Q':
                e = tr.to_q(e, t)
            return 'Definition %s : %s := %s.\n' % (name, ty, e), ty
        if d.get('kind') == 'EnumConstantDecl' and d.get('name') == name:
            # value may be in a ConstantExpr child
            def find_val(m):
                if isinstance(m, dict):
                    if 'value' in m and m.get('kind') in ('ConstantExpr', 'IntegerLiteral'):
                        return m['value']
                    for c in m.get('inner', []):
                        v = find_val(c)
                        if v is not None:
                            return v
                return None
            v = find_val(d)
            if v is None:
                raise Unsupported('enum constant %s has no explicit value' % name)
            return 'Definition %s : Z := (%s)%%Z.\n' % (name, v), 'Z'
    raise Unsupported('constant %s not found' % name)


def find_function(docs, name, cls, nparams=None):
    best = None
    for d in docs:
        if d.get('kind') not in ('FunctionDecl', 'CXXMethodDecl'):
            continue
        if d.get('name') != name or not has_body(d):
            continue
        if nparams is not None:
            np = len([c for c in d.get('inner', []) if c.get('kind') == 'ParmVarDecl'])
            if np != nparams:
                continue
        best = d
    return best


def source_text(repo, d, srcfile):
    rng = d.get('range', {})
    b = rng.get('begin', {})
    e = rng.get('end', {})

    def off(x):
        if 'offset' in x:
            return x['offset']
        if 'expansionLoc' in x:
            return x['expansionLoc'].get('offset')
        return None
    f = b.get('file') or d.get('loc', {}).get('file') or os.path.join(repo, 'cola', srcfile)
    bo, eo = off(b), off(e)
    try:
        data = open(f, 'rb').read()
        txt = data[bo:eo + 1].decode('utf8', 'replace')
        line = data[:bo].count(b'\n') + 1
        return f, line, line + txt.count('\n'), hashlib.sha256(txt.encode()).hexdigest()[:16]
    except Exception:
        return f, 0, 0, 'unknown'


def run_module(spec, mod, repo, outdir, emit=True):
    ctx = Ctx(spec)
    ctx.const_types = {}
    ext_ok = True
    # (additive) `extern_modules`: functions / constants of other modules of the spec directory may be called; they are
    # translated in memory (nothing is written) only to learn their Coq names, types and out-parameters, and the generated
    # file imports Gen.<Module>
    for en in mod.get('extern_modules', []):
        em = [m_ for m_ in spec.get('modules', []) if m_.get('module') == en]
        if not em:
            raise SystemExit('cpp2v: extern module %s not found' % en)
        eok, emeta, ectx = run_module(spec, em[0], repo, outdir, emit=False)
        ext_ok = ext_ok and eok
        ctx.funcs.update(ectx.funcs)
        ctx.consts.update(ectx.consts)
        ctx.const_types.update(ectx.const_types)
    for k in ('records', 'enum_types', 'opaque_calls', 'skip_stmt_containing'):
        if k in mod:
            setattr(ctx, {'records': 'records', 'enum_types': 'enums', 'opaque_calls': 'opaque',
                          'skip_stmt_containing': 'skip_if_contains'}[k], mod[k])
    ctx.skip_pure = mod.get('skip_pure_stmt_containing', [])
    ctx.static_classes = mod.get('static_classes', ctx.static_classes)
    ctx.opaque = {re.sub(r'\s+', '', k_): v_ for k_, v_ in ctx.opaque.items()}
    out = []
    out.append('(* GENERATED by tools/cpp2v.py from /repo/cola/%s -- do not edit. *)' % mod['file'])
    out.append('From Adapt Require Import Num.Qaux.')
    for imp in mod.get('imports', []):
        out.append('From Adapt Require Import %s.' % imp)
    for en in mod.get('extern_modules', []):
        out.append('From Adapt Require Import Gen.%s.' % en)
    out.append('Local Open Scope Q_scope.\n')
    if mod.get('prelude'):
        out.append(mod['prelude'])
    meta = []
    ok = ext_ok
    if not ext_ok:
        meta.append({'name': 'extern modules', 'status': 'unsupported', 'reason': 'a function of %s is outside the fragment' % mod.get('extern_modules')})
    # constants first
    jobs = []
    names = list(mod.get('constants', [])) + [f['name'] if isinstance(f, dict) else f for f in mod.get('functions', [])]
    files = {}
    for c in mod.get('constants', []):
        files[c] = mod['file']
    fspecs = []
    for f in mod.get('functions', []):
        if not isinstance(f, dict):
            f = {'name': f}
        fspecs.append(f)
        files[f['name']] = f.get('file', mod['file'])
    with ThreadPoolExecutor(max_workers=16) as ex:
        futs = {}
        for c in mod.get('constants', []):
            futs[c] = ex.submit(clang_dump, repo, mod['file'], c)
        for f in fspecs:
            short = f['name'].split('::')[-1]
            futs[f['name']] = ex.submit(clang_dump, repo, f.get('file', mod['file']), short)
        dumps = {}
        for kname, fu in futs.items():
            try:
                dumps[kname] = fu.result()
            except Unsupported as e:
                dumps[kname] = e
    for c in mod.get('constants', []):
        try:
            docs = dumps[c]
            if isinstance(docs, Exception):
                raise docs
            txt = None
            for d in docs:
                if d.get('kind') in ('VarDecl', 'EnumConstantDecl') and d.get('name') == c:
                    tr = FnTr(ctx, d, c)
                    if d.get('kind') == 'VarDecl' and d.get('inner'):
                        e, t = tr.expr(d['inner'][-1], {})
                        ty = ctx.map_type(qt(d))
                        if ty == 'Q':
                            e = tr.to_q(e, t)
                        txt = 'Definition %s : %s := %s.' % (c, ty, e)
                        ctx.consts[c] = c
                        ctx.const_types[c] = ty
                        break
                    if d.get('kind') == 'EnumConstantDecl':
                        s = json.dumps(d)
                        m = re.search(r'"value": "(-?\d+)"', s)
                        if not m:
                            raise Unsupported('enum constant without explicit value: ' + c)
                        txt = 'Definition %s : Z := (%s)%%Z.' % (c, m.group(1))
                        ctx.consts[c] = c
                        ctx.const_types[c] = 'Z'
                        break
            if txt is None:
                raise Unsupported('constant %s not found' % c)
            out.append(txt)
        except Unsupported as e:
            ok = False
            out.append('(* UNSUPPORTED constant %s: %s *)' % (c, e))
            meta.append({'name': c, 'status': 'unsupported', 'reason': str(e)})
    # (additive) `enum_decls`: names of C++ enum types all of whose enumerators are translated, in declaration order;
    # an enumerator without an explicit initialiser gets <previous value> + 1 (first: 0), as in C++.
    for en in mod.get('enum_decls', []):
        try:
            docs = clang_dump(repo, mod['file'], en)
            ed = None
            for d in docs:
                if d.get('kind') == 'EnumDecl' and d.get('name') == en and \
                        any(c.get('kind') == 'EnumConstantDecl' for c in d.get('inner', [])):
                    ed = d
            if ed is None:
                raise Unsupported('enum %s not found' % en)
            prev = -1
            for c in ed.get('inner', []):
                if c.get('kind') != 'EnumConstantDecl':
                    continue
                m = re.search(r'"value": "(-?\d+)"', json.dumps(c))
                if m:
                    v = int(m.group(1))
                elif c.get('inner'):
                    raise Unsupported('enumerator %s::%s has an initialiser that clang did not evaluate' % (en, c['name']))
                else:
                    v = prev + 1
                prev = v
                out.append('Definition %s : Z := (%d)%%Z.' % (c['name'], v))
                ctx.consts[c['name']] = c['name']
                ctx.const_types[c['name']] = 'Z'
            meta.append({'name': 'enum ' + en, 'status': 'ok'})
        except Unsupported as e:
            ok = False
            out.append('(* UNSUPPORTED enum %s: %s *)' % (en, e))
            meta.append({'name': 'enum ' + en, 'status': 'unsupported', 'reason': str(e)})
    out.append('')
    for f in fspecs:
        name = f['name']
        cls = None
        short = name
        if '::' in name:
            cls, short = name.split('::')
        coqname = f.get('coq', short)
        try:
            docs = dumps[name]
            if isinstance(docs, Exception):
                raise docs
            d = None
            for cand in docs:
                if cand.get('kind') in ('FunctionDecl', 'CXXMethodDecl') and cand.get('name') == short and has_body(cand):
                    if 'nparams' in f and len([c for c in cand['inner'] if c.get('kind') == 'ParmVarDecl']) != f['nparams']:
                        continue
                    if cls is not None and cand.get('kind') != 'CXXMethodDecl':
                        continue
                    # (additive) `type_contains`: overload selection by a substring of the function type
                    if 'type_contains' in f and f['type_contains'] not in qt(cand):
                        continue
                    d = cand
            if d is None:
                raise Unsupported('definition of %s not found in %s' % (name, files[name]))
            tr = FnTr(ctx, d, coqname, cls)
            if 'opaque' in f:
                tr.opaque_spec = f['opaque']
            try:
                tr.src_bytes = open(os.path.join(repo, 'cola', files[name]), 'rb').read()
            except OSError:
                tr.src_bytes = None
            txt, plist, rt = tr.translate()
            srcf, l0, l1, h = source_text(repo, d, files[name])
            out.append('(* %s  %s:%d-%d  sha256/16=%s *)' % (name, srcf, l0, l1, h))
            out.append(txt)
            if name in mod.get('emit_asserts', []):
                # (additive) second, path-sensitive translation: do all COLA_ASSERTs met on the executed path hold?
                tra = FnTr(ctx, d, coqname + '_asserts_ok', cls)
                tra.assert_mode = True
                tra.src_bytes = getattr(tr, 'src_bytes', None)
                atxt, _, _ = tra.translate()
                out.append(atxt)
            pre = [p[1] for p in tr.pre if p[0] == 'expr']
            skipped = [p[1] for p in tr.pre if p[0] == 'skip']
            ret_base = tr.ret_ty
            defaults = {}
            for pi, pdecl in enumerate([c for c in d['inner'] if c.get('kind') == 'ParmVarDecl']):
                pin = [c for c in pdecl.get('inner', []) if isinstance(c, dict) and c.get('kind')]
                if pin:
                    try:
                        defaults[pi] = FnTr(ctx, d, coqname).expr(pin[0], {})
                    except Unsupported:
                        pass
            # defaults may be declared only on the prototype
            for cand in docs:
                if cand.get('kind') in ('FunctionDecl', 'CXXMethodDecl') and cand.get('name') == short and cand is not d:
                    for pi, pdecl in enumerate([c for c in cand.get('inner', []) if c.get('kind') == 'ParmVarDecl']):
                        pin = [c for c in pdecl.get('inner', []) if isinstance(c, dict) and c.get('kind')]
                        if pin and pi not in defaults:
                            try:
                                defaults[pi] = FnTr(ctx, cand, coqname).expr(pin[0], {})
                            except Unsupported:
                                pass
            ctx.funcs[short if cls is None else name] = {
                'defaults': defaults,
                'coq': coqname, 'ret': ret_base, 'ptypes': [t for _, t in plist][(1 if cls else 0):],
                'outs': [i for i, p in enumerate([c for c in d['inner'] if c.get('kind') == 'ParmVarDecl']) if p['id'] in tr.outs],
                'method': cls is not None}
            meta.append({'name': name, 'coq': coqname, 'file': srcf, 'lines': [l0, l1], 'hash': h,
                         'status': 'ok', 'asserts': len(pre), 'asserts_skipped': skipped,
                         'params': plist, 'ret': rt})
        except Unsupported as e:
            ok = False
            out.append('(* UNSUPPORTED %s: %s *)\n' % (name, e))
            meta.append({'name': name, 'status': 'unsupported', 'reason': str(e)})
    # (additive) `fragments`: loops sliced out of functions that are otherwise outside the fragment (FnTr.translate_fragment)
    for fs in mod.get('fragments', []):
        name = fs['name']
        cls, short = (name.split('::') + [None])[:2] if '::' in name else (None, name)
        srcfile = fs.get('file', mod['file'])
        try:
            docs = clang_dump(repo, srcfile, short)
            d = None
            for cand in docs:
                if cand.get('kind') in ('FunctionDecl', 'CXXMethodDecl') and cand.get('name') == short and has_body(cand):
                    d = cand
            if d is None:
                raise Unsupported('definition of %s not found in %s' % (name, srcfile))
            tr = FnTr(ctx, d, fs['coq'], None)
            txt, plist, rt, loop, state = tr.translate_fragment(fs)
            srcf, l0, l1, h = source_text(repo, loop, srcfile)
            if not os.path.isabs(str(srcf)) or not os.path.exists(str(srcf)):
                srcf = os.path.join(repo, 'cola', srcfile)
            out.append('(* loop of %s calling %s, with the declarations of its state %s  %s:%d-%d  sha256/16=%s *)'
                       % (name, fs['loop_calling'], state, srcf, l0, l1, h))
            out.append(txt)
            meta.append({'name': name + ' [loop calling %s]' % fs['loop_calling'], 'coq': fs['coq'], 'file': srcf, 'lines': [l0, l1],
                         'hash': h, 'status': 'ok', 'params': plist, 'ret': rt, 'state': state})
        except Unsupported as e:
            ok = False
            out.append('(* UNSUPPORTED loop of %s: %s *)\n' % (name, e))
            meta.append({'name': name + ' [loop calling %s]' % fs['loop_calling'], 'status': 'unsupported', 'reason': str(e)})
    # (additive) `decisions`: slices of named local bool variables (FnTrDecisions)
    for dsp in mod.get('decisions', []):
        name = dsp['name']
        short = name.split('::')[-1]
        srcfile = dsp.get('file', mod['file'])
        try:
            docs = clang_dump(repo, srcfile, short)
            d = None
            for cand in docs:
                if cand.get('kind') in ('FunctionDecl', 'CXXMethodDecl') and cand.get('name') == short and has_body(cand):
                    d = cand
            if d is None:
                raise Unsupported('definition of %s not found in %s' % (name, srcfile))
            tr = FnTrDecisions(ctx, d, dsp['coq'], dsp['leaves'], open(os.path.join(repo, 'cola', srcfile), 'rb').read())
            defs, params = tr.translate_decisions(dsp['locals'])
            for nm, sl, txt in defs:
                srcf, l0, _, h0 = source_text(repo, sl[0], srcfile)
                _, _, l1, _ = source_text(repo, sl[-1], srcfile)
                hs = hashlib.sha256(''.join(tr.node_text(st) or '' for st in sl).encode()).hexdigest()[:16]
                out.append('(* local %s of %s: its declaration and the statements assigning it  %s:%d-%d  sha256/16=%s *)'
                           % (nm, name, os.path.join(repo, 'cola', srcfile), l0, l1, hs))
                out.append(txt)
                meta.append({'name': '%s [local %s]' % (name, nm), 'coq': '%s_%s' % (dsp['coq'], nm), 'file': srcfile, 'lines': [l0, l1],
                             'hash': hs, 'status': 'ok', 'params': params, 'ret': 'bool'})
        except Unsupported as e:
            ok = False
            out.append('(* UNSUPPORTED decisions of %s: %s *)\n' % (name, e))
            meta.append({'name': name + ' [decisions]', 'status': 'unsupported', 'reason': str(e)})
    if not emit:
        return ok, meta, ctx
    path = os.path.join(outdir, mod['module'] + '.v')
    txt = '\n'.join(out) + '\n'
    old = open(path).read() if os.path.exists(path) else None
    if old != txt:
        open(path, 'w').write(txt)
    return ok, meta


def main():
    specp, outdir = sys.argv[1], sys.argv[2]
    repo = '/repo'
    only = None
    if '--repo' in sys.argv:
        repo = sys.argv[sys.argv.index('--repo') + 1]
    if '--only' in sys.argv:
        only = set(sys.argv[sys.argv.index('--only') + 1].split(','))
    if os.path.isdir(specp):
        spec = {'modules': [json.load(open(os.path.join(specp, f))) for f in sorted(os.listdir(specp)) if f.endswith('.json')]}
    else:
        spec = json.load(open(specp))
    os.makedirs(outdir, exist_ok=True)
    allmeta = {}
    allok = True
    for mod in spec['modules']:
        if only and mod['module'] not in only:
            continue
        ok, meta = run_module(spec, mod, repo, outdir)
        allmeta[mod['module']] = meta
        allok = allok and ok
    for m, meta in allmeta.items():
        json.dump(meta, open(os.path.join(outdir, 'cpp2v_meta_%s.json' % m), 'w'), indent=1)
    for m, meta in allmeta.items():
        for f in meta:
            if f['status'] != 'ok':
                print('cpp2v: %s.%s UNSUPPORTED: %s' % (m, f['name'], f.get('reason')))
    sys.exit(0 if allok else 2)


if __name__ == '__main__':
    main()
