#!/usr/bin/env python3
"""print the DESIGN.md table of seeded changes from seeded/*/meta.json and seeded/RESULTS.json"""
import json, glob, os
ROOT = os.path.dirname(os.path.dirname(os.path.abspath(__file__)))
res = json.load(open(os.path.join(ROOT, 'seeded', 'RESULTS.json')))
print('| seeded change | what it breaks (needs) | caught by (quick tier) |')
print('|---|---|---|')
for d in sorted(glob.glob(os.path.join(ROOT, 'seeded', 'C*-*'))):
    sid = os.path.basename(d)
    m = json.load(open(os.path.join(d, 'meta.json')))
    r = res.get(sid, {})
    caught = []
    for p, v in sorted(r.items()):
        if isinstance(v, dict) and v.get('exit') == 1 and v.get('violations', 0) > 0:
            caught.append('%s (%s)' % (p, 'concrete input' if v.get('with_input') else 'no-failing-input-found'))
    need = m.get('needs_to_manifest', '')
    if isinstance(need, list):
        need = '; '.join(need)
    print('| %s | %s — needs: %s | %s |' % (sid, str(m.get('title', '')).replace('|', '/')[:110], str(need).replace('|', '/').replace('\n', ' ')[:160],
                                      ', '.join(caught) if caught else ('**missed**' if r else 'not run')))
