#!/usr/bin/env python3
"""run every seeded change against the check of its property (scratch worktree + VERIF_REPO) and write
seeded/RESULTS.json + print a table.  usage: seed_matrix.py [jobs] [ids...]"""
import sys, os, json, glob, subprocess, hashlib, time
from concurrent.futures import ThreadPoolExecutor
ROOT = os.path.dirname(os.path.dirname(os.path.abspath(__file__)))
jobs = int(sys.argv[1]) if len(sys.argv) > 1 else 3
ids = sys.argv[2:] or sorted(os.path.basename(d) for d in glob.glob(os.path.join(ROOT, 'seeded', 'C*-*')))
EXTRA = {'C20-1': ['C09'], 'C05-2': ['C06'], 'C03-1': ['C06'], 'C04-1': ['C06'], 'C14-5': ['C19'], 'C20-6': ['C02'], 'C04-6': ['C06'],
         'C03-6': ['C10'], 'C03-7': ['C11'], 'C06-8': ['C03'], 'C09-5': ['C20'], 'C03-8': ['C06'], 'C15-5': ['C11']}


def run(sid):
    pid = json.load(open(os.path.join(ROOT, 'seeded', sid, 'meta.json')))['property']
    w = '/tmp/seedmx-%s' % sid
    subprocess.run('rm -rf %s; mkdir -p %s; git -C /repo worktree add -q %s/wt HEAD' % (w, w, w), shell=True)
    r = subprocess.run('cd %s/wt && git apply %s/seeded/%s/patch.diff' % (w, ROOT, sid), shell=True)
    out = {}
    if r.returncode == 0:
        for p in [pid] + EXTRA.get(sid, []):
            t0 = time.time()
            q = subprocess.run('./check %s --tier quick' % p, shell=True, cwd=ROOT, env=dict(os.environ, VERIF_REPO=w + '/wt'),
                               stdout=subprocess.PIPE, stderr=subprocess.PIPE, text=True)
            v = [l for l in q.stdout.split('\n') if l.startswith('VIOLATION')]
            out[p] = {'exit': q.returncode, 'violations': len(v), 'with_input': len([l for l in v if 'no-failing-input-found' not in l]),
                      'wall_s': round(time.time() - t0, 1)}
    else:
        out['error'] = 'patch does not apply'
    h = hashlib.sha256(os.path.realpath(w + '/wt').encode()).hexdigest()[:10]
    subprocess.run('git -C /repo worktree remove --force %s/wt; rm -rf %s %s/build/scratch-%s' % (w, w, ROOT, h), shell=True)
    return sid, out


with ThreadPoolExecutor(jobs) as ex:
    res = dict(ex.map(run, ids))
p = os.path.join(ROOT, 'seeded', 'RESULTS.json')
old = json.load(open(p)) if os.path.exists(p) else {}
old.update(res)
json.dump(old, open(p, 'w'), indent=1, sort_keys=True)
for sid in sorted(res):
    print(sid, ' '.join('%s:exit=%s,viol=%s(with input %s)' % (k, v.get('exit'), v.get('violations'), v.get('with_input')) if isinstance(v, dict) else str(v)
                        for k, v in res[sid].items()))
