#!/usr/bin/env python3
"""pre-build the C++ libraries and extracted drivers used by the quick checks"""
import sys, os
sys.path.insert(0, os.path.dirname(os.path.dirname(os.path.abspath(__file__))))
from vlib import common as C
import importlib, glob
for f in sorted(glob.glob(os.path.join(C.VERIF, 'checks', 'c[0-9][0-9].py'))):
    m = importlib.import_module('checks.' + os.path.basename(f)[:-3])
    if hasattr(m, 'warm'):
        try:
            m.warm()
        except Exception as e:
            print('warm %s: %s' % (f, e))
