#!/bin/bash
# run_seeded.sh <seeded dir name> [check ids...]: run checks against a scratch worktree of /repo with the seeded patch applied
S=$1; shift
W=/tmp/runseed-$S
rm -rf $W; mkdir -p $W
git -C /repo worktree add -q $W/wt HEAD || exit 9
(cd $W/wt && git apply /verif/seeded/$S/patch.diff) || { echo "patch does not apply"; git -C /repo worktree remove --force $W/wt; exit 8; }
PIDS="$@"; [ -z "$PIDS" ] && PIDS=$(python3 -c "import json;print(json.load(open('/verif/seeded/$S/meta.json'))['property'])")
for P in $PIDS; do
  echo "=== $S vs check $P"
  (cd /verif && VERIF_REPO=$W/wt timeout 3000 ./check $P --tier ${TIER:-quick} 2>&1 | grep -E "^(VIOLATION|KNOWN-FINDING)|Traceback|Error" | cut -c1-300 | head -8; echo "exit=${PIPESTATUS[0]}")
done
git -C /repo worktree remove --force $W/wt; rm -rf $W
# scratch runs use private build/ and coq/ copies (vlib/common.py), nothing to restore; remove them
rm -rf /verif/build/scratch-$(python3 -c "import hashlib,os;print(hashlib.sha256(os.path.realpath('$W/wt').encode()).hexdigest()[:10])")
