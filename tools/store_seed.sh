#!/bin/bash
# store_seed.sh <agent out dir> <seeded id>   (after confirm_seed.sh wrote confirm.log into the out dir)
O=$1; ID=$2; D=/verif/seeded/$ID; mkdir -p $D
cp $O/patch.diff $O/demo.cpp $D/; [ -f $O/README.txt ] && cp $O/README.txt $D/; [ -f $O/confirm.log ] && cp $O/confirm.log $D/
python3 - <<PY
import json,subprocess
m=json.load(open('$O/meta.json'))
head=subprocess.run(['git','-C','/repo','log','--format=%h','-1'],stdout=subprocess.PIPE,text=True).stdout.strip()
m['confirmed_by_coordinator']={'how':'tools/confirm_seed.sh: scratch worktree of /repo HEAD '+head+' + rsync of the in-tree build, git apply patch.diff, make -k -j16 check (all 178 programs PASS), demo built against the rebuilt static libs FAILs with the change and PASSes after git checkout + rebuild','log':'confirm.log'}
m['source']='independent sub-agent given only the property text'
json.dump(m,open('$D/meta.json','w'),indent=1)
PY
