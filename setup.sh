#!/bin/sh
# Run once in /verif after a fresh restore, offline: regenerate Gen/ from /repo, build the whole Coq
# development (full .vo build), and warm the C++ / OCaml caches the quick checks use.
set -e
cd "$(dirname "$0")"
python3 tools/cpp2v.py tools/cpp2v_specs coq/theories/Gen --repo "${VERIF_REPO:-/repo}" || echo "setup: cpp2v reported unsupported functions (the owning check will report it)"
python3 - <<'PY'
import sys
sys.path.insert(0, '.')
from vlib import common as C
C.coq_project()
PY
( cd coq && timeout 3000 make -k -j16 ) || echo "setup: some Coq files did not build (the owning check will report it)"
python3 tools/warm.py || echo "setup: warm-up incomplete"
