"""Shared machinery of the C01 / C02 checks (VPSC): instance generators, the C++ harness / OCaml driver round trip,
and the three evaluations (C01 oracle, C02 optimality, model-vs-implementation correspondence)."""
import os, json, itertools
from fractions import Fraction as Fr
from vlib import common as C

TMP = os.path.join(C.BUILD, 'tmp')


# ------------------------------------------------------------------------------------------ numbers
def fr_dec(x):
    x = Fr(x)
    return '%d/%d' % (x.numerator, x.denominator)


def fr_hex(x):
    x = Fr(x)
    s = '%x/%x' % (abs(x.numerator), x.denominator)
    return ('-' + s) if x < 0 else s


def parse_hexq(s):
    neg = s.startswith('-')
    if neg:
        s = s[1:]
    a, b = s.split('/')
    v = Fr(int(a, 16), int(b, 16))
    return -v if neg else v


def float_to_fr(tok):
    f = float.fromhex(tok)
    if f != f or f in (float('inf'), float('-inf')):
        return None
    return Fr(*f.as_integer_ratio())


# ------------------------------------------------------------------------------------------ instances
# instance: dict(id, kind 'I'|'S', vs=[(des,wt,scl)], cs=[(l,r,gap,eq)], ops=[('S',)|('F',)|('A',l,r,gap,eq)|('D',i,d)|('W',i,w)], tag)
# ('W', i, w): the caller assigns Variable::weight of variable i (w > 0) between solves (the pin / lock idiom)
# ('R', [j..]): object reuse - the IncSolver is destroyed and a new one is constructed over the same Variable objects and the
#               listed Constraint OBJECTS (j = index in creation order: the initial cs, then one per 'A' op);
# ('P', j): addConstraint() of the existing constraint object j (not in the current solver).  Results list flags in the
#           order of the current solver's constraint list (cons_at).
def inst_cpp_text(ins):
    out = ['N %d %d %d %d %s' % (ins['id'], len(ins['vs']), len(ins['cs']), len(ins['ops']), ins['kind'])]
    for d, w, s in ins['vs']:
        out.append('v %s %s %s' % (fr_dec(d), fr_dec(w), fr_dec(s)))
    for l, r, g, e in ins['cs']:
        out.append('c %d %d %s %d' % (l, r, fr_dec(g), 1 if e else 0))
    for o in ins['ops']:
        if o[0] in 'SF':
            out.append('o ' + o[0])
        elif o[0] == 'A':
            out.append('o A %d %d %s %d' % (o[1], o[2], fr_dec(o[3]), 1 if o[4] else 0))
        elif o[0] == 'R':
            out.append('o R %d %s' % (len(o[1]), ' '.join(str(j) for j in o[1])))
        elif o[0] == 'P':
            out.append('o P %d' % o[1])
        else:
            out.append('o %s %d %s' % (o[0], o[1], fr_dec(o[2])))
    return '\n'.join(out) + '\n'


def inst_drv_text(ins, reals):
    out = ['N %d %d %d %d %s' % (ins['id'], len(ins['vs']), len(ins['cs']), len(ins['ops']), ins.get('kind', 'I'))]
    for d, w, s in ins['vs']:
        out.append('v %s %s %s' % (fr_hex(d), fr_hex(w), fr_hex(s)))
    for l, r, g, e in ins['cs']:
        out.append('c %d %d %s %d' % (l, r, fr_hex(g), 1 if e else 0))
    for o in ins['ops']:
        if o[0] in 'SF':
            out.append('o ' + o[0])
        elif o[0] == 'A':
            out.append('o A %d %d %s %d' % (o[1], o[2], fr_hex(o[3]), 1 if o[4] else 0))
        elif o[0] == 'R':
            out.append('o R %d %s' % (len(o[1]), ' '.join(str(j) for j in o[1])))
        elif o[0] == 'P':
            out.append('o P %d' % o[1])
        else:
            out.append('o %s %d %s' % (o[0], o[1], fr_hex(o[2])))
    for r in reals:
        if r['status'] == 'ok' and r['finite']:
            out.append('r %d ok %s %s %s' % (r['op'], ' '.join(fr_hex(x) for x in r['x']), r['A'], r['U']))
        elif r['status'] != 'ok' and ins.get('kind') == 'S':
            out.append('q %d' % r['op'])      # the static Solver threw: ask the verified detector whether the system is feasible
    out.append('E')
    return '\n'.join(out) + '\n'


def cons_at(ins, k):
    """constraints (in the order of the current solver's list) and variables in force when op k runs"""
    objs = list(ins['cs'])
    cur = list(range(len(objs)))
    vs = [list(v) for v in ins['vs']]
    for o in ins['ops'][:k + 1]:
        if o[0] == 'A':
            objs.append((o[1], o[2], o[3], o[4]))
            cur.append(len(objs) - 1)
        elif o[0] == 'P':
            cur.append(o[1])
        elif o[0] == 'R':
            cur = list(o[1])
        elif o[0] == 'D':
            vs[o[1]][0] = o[2]
        elif o[0] == 'W':
            vs[o[1]][1] = o[2]
    return vs, [objs[j] for j in cur]


def valid_history(ins):
    """object-reuse ops refer to existing constraint objects; an object is in a solver's list at most once"""
    nobj = len(ins['cs'])
    cur = set(range(nobj))
    for o in ins['ops']:
        if o[0] == 'A':
            cur.add(nobj)
            nobj += 1
        elif o[0] == 'P':
            if o[1] >= nobj or o[1] in cur:
                return False
            cur.add(o[1])
        elif o[0] == 'R':
            if len(set(o[1])) != len(o[1]) or any(j >= nobj for j in o[1]):
                return False
            cur = set(o[1])
    return True


def parse_cpp(txt):
    res, cur = {}, None
    for line in txt.split('\n'):
        t = line.split()
        if not t:
            continue
        if t[0] == 'I':
            cur = int(t[1])
            res[cur] = []
        elif t[0] == 'r' and cur is not None:
            k, status = int(t[1]), t[2]
            ip, ib, ia, iu, ifin = t.index('P'), t.index('B'), t.index('A'), t.index('U'), t.index('F')
            xs = [float_to_fr(x) for x in t[ip + 1:ib]]
            res[cur].append({'op': k, 'status': status, 'x': xs, 'xf': [float.fromhex(x) for x in t[ip + 1:ib]],
                             'B': [int(b) for b in t[ib + 1:ia]], 'A': t[ia + 1], 'U': t[iu + 1],
                             'finite': t[ifin + 1] == '1' and all(x is not None for x in xs),
                             'wf': (t[t.index('W') + 1] == '1') if 'W' in t else True,
                             'thrown': int(t[t.index('T') + 1]) if 'T' in t else None})
    return res


def parse_drv(txt):
    res, cur = {}, None
    for line in txt.split('\n'):
        t = line.split()
        if not t:
            continue
        if t[0] == 'I':
            cur = int(t[1])
            res[cur] = {'m': {}, 's': {}, 'd': {}, 'k': {}, 'g': {}, 'i': {}, 't': {}, 'q': {}, 'j': {}, 'r': {}}
        elif cur is None:
            continue
        elif t[0] == 'm':
            k = int(t[1])
            if t[2] != 'ok':
                res[cur]['m'][k] = {'status': ' '.join(t[2:])}
            else:
                ip, ib, ia, iu = t.index('P'), t.index('B'), t.index('A'), t.index('U')
                res[cur]['m'][k] = {'status': 'ok', 'tie': t[3] == 'T1', 'wf': t[4] != 'W0', 'x': [parse_hexq(x) for x in t[ip + 1:ib]],
                                    'B': [int(b) for b in t[ib + 1:ia]], 'A': t[ia + 1], 'U': t[iu + 1]}
        elif t[0] == 'j':
            # invariants of Vpsc/StaticInvB.v on every state of the static model's merge pass
            res[cur]['j'][int(t[1])] = {'dag': t[2] == '1', 'mask': int(t[3]), 'states': int(t[4]), 'allsat': t[5] == '1', 'same': t[6] == '1'}
        elif t[0] == 'r':
            # invariants of Vpsc/StaticRefB.v on every split of the static model's refine()
            res[cur]['r'][int(t[1])] = {'dag': t[2] == '1', 'sat_ok': t[3] == '1', 'ref_ok': t[4] == '1', 'mask': int(t[5]),
                                        'splits': int(t[6]), 'allsat': t[7] == '1', 'same': t[8] == '1'}
        elif t[0] == 't':
            # the static Solver model (Vpsc/StaticModel.v) on a static instance
            k = int(t[1])
            if t[2] == 'ok':
                ip, ib, ia = t.index('P'), t.index('B'), t.index('A')
                res[cur]['t'][k] = {'status': 'ok', 'tie': t[3] == 'T1', 'wf': t[4] != 'W0', 'x': [parse_hexq(x) for x in t[ip + 1:ib]],
                                    'B': [int(b) for b in t[ib + 1:ia]], 'A': t[ia + 1]}
            elif t[2] == 'throw_unsat':
                res[cur]['t'][k] = {'status': 'throw_unsat', 'thrown': int(t[3]), 'tie': t[4] == 'T1'}
            else:
                res[cur]['t'][k] = {'status': t[2], 'tie': False}
        elif t[0] == 'i':
            # invariants (VpscInvB.all_invb) on every state the model visited while executing op k: ok, #states, mask
            k = int(t[1])
            prev = res[cur]['i'].get(k)
            res[cur]['i'][k] = {'ok': t[2] == '1' and (prev is None or prev['ok']), 'states': int(t[3]) if prev is None else prev['states'],
                                'mask': int(t[4]) | (prev['mask'] if prev else 0)}
        elif t[0] == 'q':
            # C02 stationarity of the recomputed multipliers (VpscKktB.stationarityb) on every state visited by op k:
            # ok, #states, #variables with fresh block statistics at return, proved gap bound and min multiplier at return
            def _f(x):
                try:
                    return float(x)
                except ValueError:
                    return None
            res[cur]['q'][int(t[1])] = {'ok': t[2] == '1', 'states': int(t[3]), 'fresh': int(t[4]), 'gap': _f(t[5]), 'minlm': _f(t[6])}
        elif t[0] == 's':
            res[cur]['s'][int(t[1])] = t[2] == '1'
        elif t[0] == 'd':
            res[cur]['d'][int(t[1])] = t[2]
        elif t[0] == 'k':
            k = int(t[1])
            if t[2] == 'none':
                res[cur]['k'][k] = None
            else:
                res[cur]['k'][k] = {'src': t[2], 'x': [parse_hexq(x) for x in t[3:]]}
        elif t[0] == 'g':
            try:
                res[cur]['g'][int(t[1])] = float(t[2])
            except ValueError:
                res[cur]['g'][int(t[1])] = None
    return res


_exes = {}


def tools(force=False):
    """build (or find in the cache) the two harness variants and the driver.  Other checks share build/obj and may
    replace a library directory between our compile and link steps, so retry a few times."""
    import time
    if force:
        _exes.clear()
    if not _exes or not all(os.path.exists(p) for p in _exes.values()):
        last = None
        for attempt in range(4):
            try:
                _exes['vpsc'] = C.build_harness('c01_vpsc', ['libvpsc'], 'exc')
                _exes['avoid'] = C.build_harness('c01_vpsc_avoid', ['libavoid'], 'exc')
                _exes['drv'] = C.ocaml_build('c01', 'C01.v', 'c01_driver.ml', 'c01_model.ml')
                last = None
                break
            except RuntimeError as e:
                last = e
                time.sleep(1.5 * (attempt + 1))
        if last is not None:
            raise last
    return _exes


def run_batch(insts, impl='vpsc', tag='b', enum=False, timeout=240, _retry=True, kkt=False):
    """run the real solver (impl: vpsc | avoid) and the driver on the instances.
    returns (real: id -> [results], drv: id -> dict, errors: [str], times)"""
    ex = tools()
    os.makedirs(TMP, exist_ok=True)
    base = os.path.join(TMP, 'c01-%s-%s-%d' % (tag, impl, os.getpid()))
    errors = []
    with open(base + '.cpp.txt', 'w') as f:
        for ins in insts:
            f.write(inst_cpp_text(ins))
    rc, out, err, dt = C.sh([ex[impl], base + '.cpp.txt'], timeout=timeout)
    real = parse_cpp(out)
    if rc != 0:
        if rc in (126, 127) or 'No such file' in err or not os.path.exists(ex[impl]):
            if _retry:
                tools(force=True)
                return run_batch(insts, impl, tag, enum, timeout, _retry=False, kkt=kkt)
        # the harness died or hung inside the solver: the last announced instance is the culprit
        last = None
        for line in out.split('\n'):
            if line.startswith('I '):
                last = int(line.split()[1])
        errors.append({'kind': 'harness', 'impl': impl, 'rc': rc, 'stderr': err[-1500:], 'last_instance': last})
    with open(base + '.drv.txt', 'w') as f:
        for ins in insts:
            f.write(inst_drv_text(ins, real.get(ins['id'], [])))
    rc, out, err, dt2 = C.sh([ex['drv'], base + '.drv.txt'] + (['enum'] if enum else []) + (['kkt'] if kkt else []), timeout=timeout)
    drv = parse_drv(out)
    if rc != 0:
        if (rc in (126, 127) or not os.path.exists(ex['drv'])) and _retry:
            tools(force=True)
            return run_batch(insts, impl, tag, enum, timeout, _retry=False, kkt=kkt)
        errors.append({'kind': 'driver', 'rc': rc, 'stderr': err[-1500:]})
    for p in (base + '.cpp.txt', base + '.drv.txt'):
        try:
            os.remove(p)
        except OSError:
            pass
    return real, drv, errors, (dt, dt2)


# ------------------------------------------------------------------------------------------ evaluation
def ins_json(ins):
    return {'id': ins['id'], 'kind': ins['kind'], 'tag': ins.get('tag'),
            'vars_des_wt_scl': [[str(a) for a in v] for v in ins['vs']],
            'cons_l_r_gap_eq': [[c[0], c[1], str(c[2]), int(c[3])] for c in ins['cs']],
            'ops': [[str(a) if isinstance(a, Fr) else a for a in o] for o in ins['ops']]}


def replay_text(ins):
    return inst_cpp_text(ins)


def problem_scale(vs, cs, xs=()):
    m = Fr(1)
    for v in vs:
        m = max(m, abs(Fr(v[0])))
    for c in cs:
        m = max(m, abs(Fr(c[2])))
    for x in xs:
        m = max(m, abs(x))
    return m


def slack_of(vs, x, c):
    l, r, g, e = c
    return Fr(vs[r][2]) * x[r] - Fr(g) - Fr(vs[l][2]) * x[l]


def eval_c01(ins, reals, drv, impl):
    """returns list of violation dicts for the C01 oracle on the real outputs"""
    out = []
    d = drv or {'s': {}, 'd': {}}

    def fin(b):       # the replay material is only built for a failing case
        b.update({'instance': ins_json(ins), 'replay_input': replay_text(ins),
                  'how_to_replay': 'write replay_input to a file and run build/bin/c01_vpsc%s-exc-* <file>' % ('_avoid' if impl == 'avoid' else '')})
        return b
    sf_ops = [k for k, o in enumerate(ins['ops']) if o[0] in 'SF']
    if ins['kind'] == 'S':
        sf_ops = sf_ops[:1]
    seen = {r['op'] for r in reals}
    for r in reals:
        k = r['op']
        vs, cs = cons_at(ins, k)
        base = {'impl': impl, 'op_index': k}
        if r['status'] != 'ok':
            if ins['kind'] == 'S' and r['status'] == 'throw_unsatisfied':
                # the static Solver has no per-constraint flag: throwing UnsatisfiedConstraint from its closing scan IS
                # its report "this constraint could not be satisfied".  Legitimate iff the system is infeasible.
                det = d['d'].get(k)
                if det == 'C':
                    break                      # infeasible (verified positive cycle) and reported: what C01 asks for
                base.update({'status': r['status'], 'thrown_constraint': r.get('thrown'), 'positions_at_throw': r['xf'],
                             'what': 'static Solver reported a constraint unsatisfied (threw UnsatisfiedConstraint) although the inequality-only '
                                     'system is feasible (verified potentials)' if det == 'P' else
                                     'static Solver threw UnsatisfiedConstraint and the verified detector gave no verdict (%s)' % det})
                if det == 'P':
                    cls = classify_static_feasible_cycle(ins, r)
                    if cls:
                        base['fingerprint'] = 'static_solver_throws_on_feasible_cycle'
                        base['classifier_detail'] = cls
                out.append(fin(base))
                break
            base.update({'what': 'solver threw on a valid instance', 'status': r['status']})
            out.append(fin(base))
            break
        if not r['finite']:
            base.update({'what': 'non-finite final position', 'positions': r['xf']})
            out.append(fin(base))
            continue
        flagged = '1' in r['U']
        ineq_only = not any(c[3] for c in cs)
        if k in d['s'] and not d['s'][k]:
            worst = None
            for j, c in enumerate(cs):
                if r['U'][j] == '1':
                    continue
                sl = slack_of(vs, r['x'], c)
                bad = (abs(sl) if c[3] else -sl)
                if worst is None or bad > worst[0]:
                    worst = (bad, j, float(sl))
            base.update({'what': 'verified sat_or_flagged rejects the real output: an unflagged constraint is violated by more than 1e-6',
                         'positions': r['xf'], 'unsat_flags': r['U'], 'worst_constraint': worst[1], 'its_slack': worst[2]})
            out.append(fin(base))
            continue
        det = d['d'].get(k)
        if det == 'C' and not flagged:
            base.update({'what': 'system is infeasible (verified positive cycle) but no constraint is flagged unsatisfiable',
                         'positions': r['xf'], 'unsat_flags': r['U']})
            out.append(fin(base))
        elif det == 'P' and flagged and ineq_only:
            base.update({'what': 'inequality-only system is feasible (verified potentials) but a constraint is flagged unsatisfiable',
                         'positions': r['xf'], 'unsat_flags': r['U']})
            out.append(fin(base))
    return out


def eval_c02(ins, reals, drv, impl, reltol=Fr(1, 100000)):
    """optimality of every successful solve() with no flagged constraint.  returns (violations, stats)"""
    out, stats = [], {'certified': 0, 'gap_only': 0, 'uncertified': 0, 'src': {}}
    d = drv or {'k': {}, 'g': {}}
    for r in reals:
        k = r['op']
        if ins['ops'][k][0] != 'S' or r['status'] != 'ok' or not r['finite'] or '1' in r['U']:
            continue
        vs, cs = cons_at(ins, k)
        cert = d['k'].get(k)
        base = {'impl': impl, 'instance': ins_json(ins), 'op_index': k, 'replay_input': replay_text(ins),
                'how_to_replay': 'write replay_input to a file and run build/bin/c01_vpsc%s-exc-* <file>' % ('_avoid' if impl == 'avoid' else '')}
        if cert:
            stats['certified'] += 1
            stats['src'][cert['src']] = stats['src'].get(cert['src'], 0) + 1
            xs = cert['x']
            sc = problem_scale(vs, cs, xs)
            dev = max([abs(a - b) for a, b in zip(xs, r['x'])] or [Fr(0)])
            if dev > reltol * sc or '!' in cert['src']:
                fo = sum(Fr(v[1]) * (x - Fr(v[0])) ** 2 for v, x in zip(vs, xs))
                fr = sum(Fr(v[1]) * (x - Fr(v[0])) ** 2 for v, x in zip(vs, r['x']))
                base.update({'what': 'solve() result differs from the kkt_ok-certified unique optimum',
                             'certificate_source': cert['src'], 'optimum': [float(x) for x in xs], 'got': r['xf'],
                             'objective_optimum': float(fo), 'objective_got': float(fr), 'max_deviation': float(dev),
                             'active_flags': r['A']})
                out.append(base)
        else:
            g = d['g'].get(k)
            sc = problem_scale(vs, cs, r['x'])
            if g is not None and g <= float(reltol * sc * sc):
                stats['gap_only'] += 1
            else:
                stats['uncertified'] += 1
                base.update({'what': 'no certified optimum available and the verified duality-gap bound is not small',
                             'gap_bound': g, 'got': r['xf'], 'active_flags': r['A']})
                out.append(base)
    return out, stats


def eval_corr(ins, reals, drv, impl, postol=Fr(1, 10 ** 9)):
    """model vs implementation.  returns (status, detail): status in ok | tie | diff"""
    d = drv or {'m': {}}
    tie_seen = False
    for k, iv in sorted((d.get('i') or {}).items()):
        if not iv['ok']:
            return 'diff', {'op_index': k, 'what': 'a state the MODEL visits while executing this op violates a proved invariant '
                            '(mask: 1 book, 2 act_inv, 4 forest, 8 trichotomy, 16 block statistics, 32 AB sums, 64 step_chk<>step)',
                            'mask': iv['mask'], 'states_checked': iv['states']}
    for r in reals:
        k = r['op']
        m = d['m'].get(k)
        if m is None:
            return 'diff', {'op_index': k, 'what': 'model produced no result (earlier failure)', 'model': None}
        if r['status'] != 'ok' or m['status'] != 'ok':
            if r['status'] == 'ok' or m['status'] == 'ok':
                return 'diff', {'op_index': k, 'what': 'status differs', 'impl_status': r['status'], 'model_status': m['status']}
            continue
        if not r['finite']:
            return 'diff', {'op_index': k, 'what': 'implementation produced non-finite positions'}
        if not m.get('wf', True):
            return 'diff', {'op_index': k, 'what': 'the MODEL state returned by this op violates act_inv (active => same block and offsets differ by the gap)'}
        if not r.get('wf', True):
            return 'diff', {'op_index': k, 'what': 'the REAL solver state violates active => same block and offsets differ by the gap', 'impl': {'A': r['A'], 'B': r['B']}}
        tie_seen = tie_seen or m['tie']
        vs, cs = cons_at(ins, k)
        sc = problem_scale(vs, cs, m['x'])
        dev = max([abs(a - b) for a, b in zip(m['x'], r['x'])] or [Fr(0)])
        same_disc = (m['A'] == r['A'] and m['U'] == r['U'] and m['B'] == r['B'])
        if same_disc and dev <= postol * sc:
            continue
        detail = {'op_index': k, 'what': 'model and implementation differ', 'impl': {'A': r['A'], 'U': r['U'], 'B': r['B'], 'x': r['xf']},
                  'model': {'A': m['A'], 'U': m['U'], 'B': m['B'], 'x': [float(x) for x in m['x']]}, 'max_pos_dev': float(dev)}
        if tie_seen:
            return 'tie', detail
        return 'diff', detail
    return 'ok', None


def eval_corr_static(ins, reals, drv, postol=Fr(1, 10 ** 9)):
    """static Solver: extracted StaticModel vs implementation.  returns (status, detail): ok | tie | diff.
    Exact comparison of: normal return / thrown UnsatisfiedConstraint incl. the index of the reported constraint,
    block partition, active flags; positions to 1e-9*scale.  Instances in which the model made a control-flow comparison
    between keys closer than 1e-7 (tie flag) are counted separately."""
    d = drv or {}
    ts = d.get('t') or {}
    for k, jv in sorted((d.get('j') or {}).items()):
        # bits 1 (heap_ok), 2 (act_inv) hold on every multigraph; 4 (prefix sat), 8 (monotone), 16 (root is the minimum),
        # 32 (violated in-constraints are in the heap) and exact satisfaction at the end are claims about DAGs
        bad = (jv['mask'] & 3) or (not jv['same']) or (jv['dag'] and (jv['mask'] or not jv['allsat']))
        if bad:
            return 'diff', {'op_index': k, 'what': 'a state the STATIC MODEL visits in the merge pass of satisfy() violates an invariant of Vpsc/StaticInvB.v '
                            '(mask: 1 heap_ok, 2 act_inv, 4 prefix sat, 8 monotone, 16 root is the minimum, 32 violated in-constraints in heap; '
                            'allsat = every slack >= 0 exactly after the pass; same = checked runner computes what merge_pass computes)',
                            'dag': jv['dag'], 'mask': jv['mask'], 'allsat': jv['allsat'], 'same': jv['same'], 'states_checked': jv['states']}
    for k, rv in sorted((d.get('r') or {}).items()):
        # Vpsc/StaticRefB.v on every split of refine(): on a DAG the model's refine must return, end with every slack >= 0
        # exactly, and every visited state must satisfy the invariants the refine proof plan rests on (bits 4, 8, 256 are
        # the naive candidates that are known to be false on reachable states and are only recorded)
        if rv['dag'] and (not rv['sat_ok'] or not rv['ref_ok'] or not rv['allsat'] or not rv['same'] or (rv['mask'] & ~(4 | 8 | 256))):
            return 'diff', {'op_index': k, 'what': 'the STATIC MODEL of refine() on a DAG input does not return with every slack >= 0, or a state it '
                            'visits inside Blocks::split violates an invariant of Vpsc/StaticRefB.v (mask: 1 all sat at split entry, 2 only the '
                            'left half moved (left), 32 out-heap root is the most violated out-constraint, 64 violated out-constraints in heap, '
                            '128 all sat after mergeRight, 512 split constraint active inside its block, 1024 pair invariant J in mergeLeft, '
                            '2048 invariant I2 in mergeRight, 4096 in-heap root most violated in split.mergeLeft, 8192 violated in-constraints in heap, 16384 mode A (r not merged: M only moved left), 32768 all sat after mergeLeft when r was not merged, 65536 heap / time-stamp invariant HW of Vpsc/StaticInHeap.v in split.mergeLeft)', 'refine': rv}
    for r in reals:
        k = r['op']
        m = ts.get(k)
        if m is None:
            return 'diff', {'op_index': k, 'what': 'static model produced no result'}
        tie = m.get('tie', False)
        bad = lambda det: ('tie' if tie else 'diff', det)
        if m['status'] == 'out_of_fuel':
            return 'diff', {'op_index': k, 'what': 'static model ran out of fuel / null heap', 'impl_status': r['status']}
        if r['status'] != 'ok' or m['status'] != 'ok':
            if r['status'] == 'ok' or m['status'] == 'ok' or r['status'] != 'throw_unsatisfied':
                return bad({'op_index': k, 'what': 'status differs', 'impl_status': r['status'], 'model_status': m['status'],
                            'impl_thrown': r.get('thrown'), 'model_thrown': m.get('thrown')})
            if r.get('thrown') != m.get('thrown'):
                return bad({'op_index': k, 'what': 'both report an unsatisfied constraint but not the same one',
                            'impl_thrown': r.get('thrown'), 'model_thrown': m.get('thrown')})
            continue
        if not r['finite']:
            return 'diff', {'op_index': k, 'what': 'implementation produced non-finite positions'}
        if not m.get('wf', True):
            return 'diff', {'op_index': k, 'what': 'the static MODEL state returned violates act_inv'}
        vs, cs = cons_at(ins, k)
        sc = problem_scale(vs, cs, m['x'])
        dev = max([abs(a - b) for a, b in zip(m['x'], r['x'])] or [Fr(0)])
        if m['A'] == r['A'] and m['B'] == r['B'] and dev <= postol * sc:
            continue
        return bad({'op_index': k, 'what': 'static model and implementation differ', 'impl': {'A': r['A'], 'B': r['B'], 'x': r['xf']},
                    'model': {'A': m['A'], 'B': m['B'], 'x': [float(x) for x in m['x']]}, 'max_pos_dev': float(dev)})
    return 'ok', None


# ------------------------------------------------------------------------------------------ generators
DES = [Fr(x) for x in range(-4, 9)] + [Fr(1, 2), Fr(5, 2), Fr(-3, 2), Fr(7, 4)]
WTS = [Fr(1)] * 5 + [Fr(2), Fr(3), Fr(1, 2), Fr(5), Fr(10)]
SCLS = [Fr(1), Fr(1), Fr(2), Fr(1, 2), Fr(4), Fr(3)]
GAPS = [Fr(x) for x in (-2, -1, 0, 0, 1, 1, 2, 3, 4)] + [Fr(1, 2), Fr(3, 2)]
PINW = [Fr(1000), Fr(1000), Fr(100000), Fr(1), Fr(1), Fr(2), Fr(1, 2), Fr(10), Fr(1, 100)]     # pin (fixPos / lock), unpin, re-weight


def gen_vars(rng, n, scaled, intlike):
    vs = []
    for i in range(n):
        d = Fr(rng.range(-3, 6)) if intlike else rng.choice(DES)
        w = Fr(1) if (intlike and rng.chance(3, 4)) else rng.choice(WTS)
        s = rng.choice(SCLS) if scaled else Fr(1)
        vs.append((d, w, s))
    return vs


def gen_con(rng, n, order, mode, eqp):
    l, r = rng.below(n), rng.below(n)
    if mode == 'dag':
        while l == r:
            r = rng.below(n)
        if order[l] > order[r]:
            l, r = r, l
    elif l == r and not rng.chance(1, 20):
        r = (l + 1 + rng.below(n - 1)) % n if n > 1 else l
    g = rng.choice(GAPS)
    e = rng.chance(eqp, 100)
    return (l, r, g, e)


def gen_instance(rng, iid, nmax, kind='I', hist=True, weights=False):
    """weights=True: op histories may also change Variable::weight between solves (ops ('W', i, w))"""
    n = rng.range(2, nmax)
    family = rng.choice(['dag', 'dag', 'rand', 'cycle', 'dup', 'chain', 'rand'])
    if kind == 'S':
        family = rng.choice(['dag', 'chain', 'dup'])
    elif kind == 'SC':
        # the static Solver on arbitrary multigraphs (C01 quantifies over cycles too): cycles of total gap -1/0/+1, random digraphs
        family = rng.choice(['cycle', 'cycle', 'rand', 'dag'])
        kind = 'S'
    scaled = rng.chance(1, 4)
    intlike = rng.chance(1, 2)
    eqp = 25 if (rng.chance(1, 3) and kind == 'I') else 0
    vs = gen_vars(rng, n, scaled, intlike)
    order = rng.shuffle(list(range(n)))
    pos = {v: i for i, v in enumerate(order)}
    cs = []
    if family == 'dag':
        m = rng.range(1, 2 * n)
        cs = [gen_con(rng, n, pos, 'dag', eqp) for _ in range(m)]
    elif family == 'rand':
        m = rng.range(1, 2 * n)
        cs = [gen_con(rng, n, pos, 'rand', eqp) for _ in range(m)]
    elif family == 'chain':
        # a chain in a random order with desired positions pulling against it: needs merges and splits
        for a, b in zip(order, order[1:]):
            cs.append((a, b, rng.choice([Fr(1), Fr(2), Fr(1, 2), Fr(0)]), rng.chance(eqp, 100)))
        for _ in range(rng.below(n)):
            cs.append(gen_con(rng, n, pos, 'dag', eqp))
        cs = rng.shuffle(cs)
    elif family == 'cycle':
        k = rng.range(2, min(n, 5))
        cyc = order[:k]
        gaps = [Fr(rng.range(-1, 3)) for _ in range(k)]
        total = rng.choice([-1, 0, 1])
        gaps[-1] = Fr(total) - sum(gaps[:-1])
        for i in range(k):
            cs.append((cyc[i], cyc[(i + 1) % k], gaps[i], False))
        for _ in range(rng.below(n + 1)):
            cs.append(gen_con(rng, n, pos, 'dag' if rng.chance(1, 2) else 'rand', eqp))
        cs = rng.shuffle(cs)
    elif family == 'dup':
        m = rng.range(1, n + 2)
        base = [gen_con(rng, n, pos, 'dag', eqp) for _ in range(m)]
        cs = list(base)
        for c in base:
            if rng.chance(1, 2):
                cs.append(c if rng.chance(1, 2) else (c[0], c[1], c[2] + rng.choice([Fr(0), Fr(1), Fr(-1)]), c[3]))
        cs = rng.shuffle(cs)
    if kind == 'S':
        cs = [(l, r, g, False) for (l, r, g, e) in cs if l != r]
        ops = [('S',)] if rng.chance(3, 4) else [('F',)]
        return {'id': iid, 'kind': 'S', 'vs': vs, 'cs': cs, 'ops': ops, 'tag': 'static-' + family}
    ops = [('S',) if rng.chance(3, 4) else ('F',)]
    if weights and rng.chance(1, 4):
        # weight changed after the solver (and its blocks) was constructed but before the first solve
        ops = [('W', rng.below(n), rng.choice(PINW))] + ops
    if hist and (weights or rng.chance(1, 2)):
        for _ in range(rng.range(1, 7)):
            t = rng.below(10)
            if t < 3:
                mode = 'dag' if family in ('dag', 'chain', 'dup') and rng.chance(2, 3) else 'rand'
                c = gen_con(rng, n, pos, mode, eqp)
                ops.append(('A',) + c)
            elif t < 7:
                if weights and rng.chance(1, 2):
                    ops.append(('W', rng.below(n), rng.choice(PINW)))
                else:
                    ops.append(('D', rng.below(n), rng.choice(DES)))
            else:
                ops.append(('S',) if rng.chance(2, 3) else ('F',))
        if ops[-1][0] not in 'SF':
            ops.append(('S',) if rng.chance(3, 4) else ('F',))
        ops = ops[:8]
        if ops[-1][0] not in 'SF':
            ops[-1] = ('S',)
    return {'id': iid, 'kind': 'I', 'vs': vs, 'cs': cs, 'ops': ops,
            'tag': family + ('+eq' if eqp else '') + ('+scaled' if scaled else '') + ('+hist' if len(ops) > 1 else '') +
                   ('+wt' if any(o[0] == 'W' for o in ops) else '')}


def gen_reuse_instance(rng, iid, nmax):
    """Variable and Constraint OBJECTS re-used across successive IncSolvers, as drivers that keep "what is satisfiable"
    do (cf. colafd makeFeasible, aca, orthogonal_topology - they re-use objects and reset Constraint::unsatisfiable):
    solve with solver A over all constraints; destroy it; build solver B on the same variables with a subset of the
    constraint objects; addConstraint the remaining objects (which may have ended up ACTIVE in A) one by one, with
    solves in between.  The model simply starts a fresh state at R: per-object flags surviving from the earlier
    solver are hidden state that the property's statement has no room for."""
    g = gen_instance(rng, iid, nmax, 'I', False)
    if rng.chance(1, 3):
        # everything wants to sit at one point: every constraint of a chain ends up active in solver A
        d = rng.choice(DES)
        g['vs'] = [(d, w, s) for (_, w, s) in g['vs']]
    m = len(g['cs'])
    sf = lambda: ('S',) if rng.chance(1, 2) else ('F',)
    ops = [sf()]
    rounds = 2 if rng.chance(1, 4) else 1
    for _ in range(rounds):
        ids = rng.shuffle(list(range(m)))
        keep = rng.choice([0, 0, m // 2, max(m - 1, 0), rng.below(m + 1)])
        ops.append(('R', sorted(ids[:keep]) if rng.chance(1, 2) else ids[:keep]))
        if rng.chance(1, 2):
            ops.append(sf())
        for j in ids[keep:]:
            ops.append(('P', j))
            if rng.chance(1, 2):
                ops.append(sf())
            if rng.chance(1, 6):
                ops.append(('D', rng.below(len(g['vs'])), rng.choice(DES)))
        if ops[-1][0] not in 'SF':
            ops.append(sf())
    g['ops'] = ops
    g['tag'] = g['tag'] + '+reuse'
    return g


def gen_exhaustive(level):
    """the finite families swept completely: n=2 all desired positions in {-1,0,1,2}^2 and all constraint sequences of
    length <= 3 over (2 ordered pairs x 4 gaps); n=3 four desired-position patterns x all sequences of length <= L
    over (6 ordered pairs x 4 gaps)"""
    G = [Fr(-1), Fr(0), Fr(1), Fr(2)]
    iid = 0
    out = []
    opts2 = [(l, r, g, False) for (l, r) in ((0, 1), (1, 0)) for g in G]
    for d0 in G:
        for d1 in G:
            for m in (1, 2, 3):
                for seq in itertools.product(opts2, repeat=m):
                    iid += 1
                    out.append({'id': iid, 'kind': 'I', 'vs': [(d0, Fr(1), Fr(1)), (d1, Fr(1), Fr(1))], 'cs': list(seq),
                                'ops': [('S',)], 'tag': 'exh2'})
    opts3 = [(l, r, g, False) for l in range(3) for r in range(3) if l != r for g in G]
    pats = [(Fr(0), Fr(0), Fr(0)), (Fr(2), Fr(1), Fr(0)), (Fr(0), Fr(2), Fr(1)), (Fr(1), Fr(-1), Fr(2))]
    L = 2 if level == 'quick' else 3
    for p in pats:
        for m in range(1, L + 1):
            for seq in itertools.product(opts3, repeat=m):
                iid += 1
                out.append({'id': iid, 'kind': 'I', 'vs': [(d, Fr(1), Fr(1)) for d in p], 'cs': list(seq),
                            'ops': [('S',)], 'tag': 'exh3'})
    return out


def gen_exhaustive_static(level):
    """the static Solver on the same finite families (all multigraphs on 2 variables with <= 3 constraints and gaps in
    {-1,0,1,2}, i.e. every two-cycle of total gap -2..4 with every pair of desired positions; on 3 variables every
    sequence of <= 2 (quick) / 3 (thorough) constraints): feasible and infeasible, acyclic and cyclic"""
    out = []
    for e in gen_exhaustive(level):
        t = dict(e)
        t['kind'] = 'S'
        t['tag'] = 'static-' + e['tag']
        out.append(t)
        if e['id'] % 3 == 0:
            t2 = dict(t)
            t2['ops'] = [('F',)]
            t2['id'] = e['id'] + 10000000
            out.append(t2)
    return out


def histogram(insts):
    h = {}
    for i in insts:
        h[i['tag']] = h.get(i['tag'], 0) + 1
    return h


# ------------------------------------------------------------------------------------------ shrinking / classification
def shrink(ins, fails, budget=400):
    """greedy delta-debugging on constraints, ops, variables and numbers; `fails(ins)` must be true for the input"""
    import copy
    calls = [0]

    def f(t):
        if not valid_history(t):
            return False
        calls[0] += 1
        return calls[0] <= budget and fails(t)
    reuse = any(o[0] in 'RP' for o in ins['ops'])      # constraint-object numbering must stay stable then
    changed = True
    while changed and calls[0] <= budget:
        changed = False
        for j in range(len(ins['cs']) - 1, -1, -1):
            if reuse:
                # delete object j only if no later op needs the numbering: drop it from every R list, shift the larger ids
                if any(o[0] == 'P' and o[1] == j for o in ins['ops']):
                    continue
                t = copy.deepcopy(ins)
                del t['cs'][j]
                g2 = lambda i: i - 1 if i > j else i
                t['ops'] = [('R', [g2(i) for i in o[1] if i != j]) if o[0] == 'R' else (('P', g2(o[1])) if o[0] == 'P' else o) for o in t['ops']]
                if f(t):
                    ins, changed = t, True
                continue
            t = copy.deepcopy(ins)
            del t['cs'][j]
            if f(t):
                ins, changed = t, True
        for k in range(len(ins['ops']) - 2, -1, -1):
            if k >= len(ins['ops']) - 1:
                continue
            if reuse and ins['ops'][k][0] == 'A':
                continue
            t = copy.deepcopy(ins)
            del t['ops'][k]
            if t['ops'] and t['ops'][0][0] in 'SFADWRP' and f(t):
                ins, changed = t, True
        for v in range(len(ins['vs']) - 1, -1, -1):
            used = any(c[0] == v or c[1] == v for c in ins['cs']) or \
                any((o[0] == 'A' and (o[1] == v or o[2] == v)) or (o[0] in 'DW' and o[1] == v) for o in ins['ops'])
            if not used and len(ins['vs']) > 1:
                t = copy.deepcopy(ins)
                del t['vs'][v]
                g = lambda i: i - 1 if i > v else i
                t['cs'] = [(g(c[0]), g(c[1]), c[2], c[3]) for c in t['cs']]
                t['ops'] = [('A', g(o[1]), g(o[2]), o[3], o[4]) if o[0] == 'A' else ((o[0], g(o[1]), o[2]) if o[0] in 'DW' else o)
                            for o in t['ops']]
                if f(t):
                    ins, changed = t, True
        for i, (d, w, s) in enumerate(ins['vs']):
            for nv in ((d, w, Fr(1)), (d, Fr(1), s), (Fr(0), w, s), (Fr(round(d)), w, s)):
                if nv != ins['vs'][i]:
                    t = copy.deepcopy(ins)
                    t['vs'][i] = nv
                    if f(t):
                        ins, changed = t, True
                        break
    return ins


def c02_fails(impl):
    def f(ins):
        real, drv, errs, _ = run_batch([ins], impl, tag='shr', timeout=60)
        if errs or ins['id'] not in drv:
            return False
        a, _ = eval_c02(ins, real.get(ins['id'], []), drv.get(ins['id']), impl)
        return bool(a)
    return f


def c01_fails(impl):
    def f(ins):
        real, drv, errs, _ = run_batch([ins], impl, tag='shr', timeout=60)
        if any(e['kind'] == 'driver' for e in errs) or (not errs and ins['id'] not in drv):
            return False
        if errs:
            return True       # the harness crashed or hung on this instance
        # a case that matches a known-finding classifier is not a reproduction of the (plain) failure being minimised
        return any(not x.get('fingerprint') for x in eval_c01(ins, real.get(ins['id'], []), drv.get(ins['id']), impl))
    return f


def classify_cost_stall(ins, k, impl, reltol=Fr(1, 100000)):
    """fingerprint predicate `cost_stall` for a sub-optimal solve() at op k: the SAME solver object reaches the
    kkt_ok-certified optimum when solve() is simply called again (at most 4 more times), i.e. the result was a
    premature exit of the cost-change loop of IncSolver::solve, not a wrong fixed point."""
    import copy
    t = copy.deepcopy(ins)
    t['ops'] = list(t['ops'][:k + 1]) + [('S',)] * 4
    real, drv, errs, _ = run_batch([t], impl, tag='cls')
    rs = real.get(t['id'], [])
    d = drv.get(t['id'])
    if not rs or not d:
        return False
    last = rs[-1]
    cert = None
    for kk in range(len(t['ops']) - 1, k - 1, -1):
        if d['k'].get(kk):
            cert = d['k'][kk]
            break
    if cert is None or last['status'] != 'ok' or not last['finite'] or '1' in last['U']:
        return False
    vs, cs = cons_at(t, len(t['ops']) - 1)
    sc = problem_scale(vs, cs, cert['x'])
    dev = max([abs(a - b) for a, b in zip(cert['x'], last['x'])] or [Fr(0)])
    return dev <= reltol * sc


def parse_cpp_instances(txt):
    """inverse of inst_cpp_text (corpus files)"""
    out, cur = [], None
    for line in txt.split('\n'):
        t = line.split()
        if not t or t[0].startswith('#'):
            continue
        if t[0] == 'N':
            cur = {'id': int(t[1]), 'kind': t[5], 'vs': [], 'cs': [], 'ops': [], 'tag': 'corpus'}
            out.append(cur)
        elif t[0] == 'v':
            cur['vs'].append(tuple(Fr(x) for x in t[1:4]))
        elif t[0] == 'c':
            cur['cs'].append((int(t[1]), int(t[2]), Fr(t[3]), t[4] == '1'))
        elif t[0] == 'o':
            if t[1] in 'SF':
                cur['ops'].append((t[1],))
            elif t[1] == 'A':
                cur['ops'].append(('A', int(t[2]), int(t[3]), Fr(t[4]), t[5] == '1'))
            elif t[1] == 'R':
                cur['ops'].append(('R', [int(x) for x in t[3:3 + int(t[2])]]))
            elif t[1] == 'P':
                cur['ops'].append(('P', int(t[2])))
            else:
                cur['ops'].append((t[1], int(t[2]), Fr(t[3])))
    return out


def load_corpus(name):
    p = os.path.join(C.VERIF, 'corpus', name)
    if not os.path.exists(p):
        return []
    return parse_cpp_instances(open(p).read())


def perm_twin(rng, ins, iid):
    """the same problem with variables and constraints supplied in another order (fresh solve only)"""
    n = len(ins['vs'])
    p = rng.shuffle(list(range(n)))          # new index of old variable i is p[i]
    vs = [None] * n
    for i, v in enumerate(ins['vs']):
        vs[p[i]] = v
    cs = rng.shuffle([(p[l], p[r], g, e) for (l, r, g, e) in ins['cs']])
    return {'id': iid, 'kind': ins['kind'], 'vs': vs, 'cs': cs, 'ops': [ins['ops'][0]], 'tag': 'perm-twin',
            'twin_of': ins['id'], 'perm': p}


def unscaled_equivalent(ins):
    """substitute u_i = scl_i * x_i: the same problem with all scales 1, weights wt/scl^2, desired scl*des"""
    import copy
    t = copy.deepcopy(ins)
    t['vs'] = [(Fr(d) * Fr(s), Fr(w) / (Fr(s) * Fr(s)), Fr(1)) for (d, w, s) in ins['vs']]
    t['ops'] = [('D', o[1], Fr(o[2]) * Fr(ins['vs'][o[1]][2])) if o[0] == 'D' else
                (('W', o[1], Fr(o[2]) / (Fr(ins['vs'][o[1]][2]) ** 2)) if o[0] == 'W' else o) for o in ins['ops']]
    return t


def classify_static_scale(ins, k, impl, reltol=Fr(1, 100000)):
    """fingerprint predicate `static_scale`: the static Solver returns a sub-optimal result on an instance with
    scaled variables but the optimum on the mathematically equivalent instance with all scales 1."""
    if ins['kind'] != 'S' or all(Fr(v[2]) == 1 for v in ins['vs']):
        return False
    t = unscaled_equivalent(ins)
    real, drv, errs, _ = run_batch([t], impl, tag='cls')
    if errs:
        return False
    v, st = eval_c02(t, real.get(t['id'], []), drv.get(t['id']), impl, reltol)
    return not v and st['certified'] > 0


def classify_static_feasible_cycle(ins, r):
    """fingerprint predicate `static_solver_throws_on_feasible_cycle` for a static Solver::satisfy()/solve() that threw
    UnsatisfiedConstraint on a FEASIBLE inequality-only system (feasibility is decided by the caller with the verified
    detector): the thrown constraint lies in a weakly connected component of the constraint graph that contains a
    directed cycle (necessarily of non-positive total gap, the system being feasible).  Blocks::totalOrder() starts its
    DFS only from variables without in-constraints and its push_front order is a topological order only for a DAG, so
    mergeLeft() cannot establish its invariant ("all in-constraints of the processed block are satisfied") in such a
    component.  A throw inside an acyclic component is never this finding.  Returns None or a detail string:
    'through' (the thrown constraint is itself on a directed cycle), 'downstream' (its left variable is reachable from
    a cycle), 'component' (only weakly connected to one - seen after refine() split blocks in solve())."""
    if ins['kind'] != 'S' or r.get('thrown') is None or r['thrown'] < 0:
        return None
    vs, cs = cons_at(ins, r['op'])
    n, j = len(vs), r['thrown']
    if j >= len(cs) or any(c[3] for c in cs):
        return None
    adj = [[] for _ in range(n)]
    und = [[] for _ in range(n)]
    for (l, rr, g, e) in cs:
        adj[l].append(rr)
        und[l].append(rr)
        und[rr].append(l)

    def reach(a, start):
        seen, st = set(), [start]
        while st:
            v = st.pop()
            for w in a[v]:
                if w not in seen:
                    seen.add(w)
                    st.append(w)
        return seen
    R = [reach(adj, v) for v in range(n)]
    oncyc = [v in R[v] for v in range(n)]
    l, rr = cs[j][0], cs[j][1]
    if l == rr or l in R[rr]:
        return 'through'
    if oncyc[l] or any(oncyc[v] and l in R[v] for v in range(n)):
        return 'downstream'
    comp = reach(und, l) | {l}
    if any(oncyc[v] for v in comp):
        return 'component'
    return None


# ------------------------------------------------------------------------------------------ gradient-projection style
def gen_gp_instance(rng, iid, nmax, mag):
    """what cola's GradientProjection does with one IncSolver: satisfy(), then repeatedly move (nearly) all desired
    positions a little and satisfy() again; coordinates of magnitude `mag`, non-dyadic values, a few heavy weights"""
    g = gen_instance(rng, iid, nmax, 'I', False)
    mag = Fr(mag)
    jit = lambda: Fr(rng.range(-999, 999), 1000)
    g['vs'] = [(d * mag + jit() * mag / 100, w * rng.choice([1, 1, 1, 1000, 100000]), s) for (d, w, s) in g['vs']]
    g['cs'] = [(l, r, gp * mag / 10 + jit(), e) for (l, r, gp, e) in g['cs']]
    ops = [('F',)]
    for _ in range(rng.range(2, 5)):
        for v in range(len(g['vs'])):
            if rng.chance(2, 3):
                ops.append(('D', v, g['vs'][v][0] + jit() * mag / 10))
        ops.append(('F',) if rng.chance(4, 5) else ('S',))
    g['ops'] = ops
    g['tag'] = 'gp-mag%g' % float(mag)
    return g


def classify_final_scan_rounding(ins, r, model_status):
    """fingerprint predicate `final_scan_rounding` for a satisfy()/solve() that threw from its final scan: the exact
    model returns normally on the same history, and on the solver's internal positions at the time of the throw every
    unflagged constraint holds up to binary64 rounding of the coordinates (|violation| <= 2^-44 * max coordinate),
    i.e. the only 'violations' are rounded slacks of tight constraints falling below the absolute -1e-10 threshold."""
    if r['status'] != 'throw_char' or not r['finite'] or model_status != 'ok':
        return False
    vs, cs = cons_at(ins, r['op'])
    if len(r['U']) != len(cs):
        return False
    mx = max([abs(x) for x in r['x']] + [abs(Fr(v[2]) * x) for v, x in zip(vs, r['x'])] + [Fr(1)])
    lim = mx / (2 ** 44)
    worst = Fr(0)
    for j, c in enumerate(cs):
        if r['U'][j] == '1':
            continue
        sl = slack_of(vs, r['x'], c)
        bad = abs(sl) if (c[3] and r['A'][j] == '1') else -sl
        worst = max(worst, bad)
    return worst <= lim


# ------------------------------------------------------------------------------------------ mean-preserving re-solve (DESIGN 9.19)
MP_W = [Fr(1), Fr(1), Fr(2), Fr(4), Fr(1, 2), Fr(1, 4)]
MP_S = [Fr(1), Fr(2), Fr(1, 2), Fr(4)]
MP_DELTA = [Fr(x, 2) for x in range(-16, 17) if x]


def run_real(insts, impl='vpsc', tag='mp', timeout=120):
    """the real solver only (no driver): id -> [results]; used by generators that look at the partition a solve returned"""
    ex = tools()
    os.makedirs(TMP, exist_ok=True)
    p = os.path.join(TMP, 'c01-%s-%s-%d.real.txt' % (tag, impl, os.getpid()))
    with open(p, 'w') as f:
        for ins in insts:
            f.write(inst_cpp_text(ins))
    rc, out, err, dt = C.sh([ex[impl], p], timeout=timeout)
    try:
        os.remove(p)
    except OSError:
        pass
    return parse_cpp(out)


def gen_mp_base(rng, iid, nmax, solve_num=3):
    """first solve of a mean-preserving re-solve history: DAG (a chain in a random order + forward edges), dyadic weights and
    scales (so that sum w*a*d over a block is computed exactly in binary64), desired positions that press the variables
    together into one or several multi-variable blocks"""
    n = rng.range(2, nmax)
    shape = rng.choice(['one', 'one', 'pressed', 'clusters', 'clusters'])
    wmode, smode = rng.below(3), rng.below(3)       # 0: all 1, 1/2: dyadic values != 1 mixed in
    order = rng.shuffle(list(range(n)))
    pos = {v: i for i, v in enumerate(order)}
    cut = set()
    if shape == 'clusters' and n >= 4:
        cut = {rng.range(2, n - 2)} | ({rng.range(2, n - 2)} if n >= 6 and rng.chance(1, 2) else set())
    base = Fr(rng.range(-4, 8))
    vs = [None] * n
    grp = 0
    for i, v in enumerate(order):
        if i in cut:
            grp += 1
        if shape == 'pressed':
            d = base + Fr(n - i) * rng.choice([Fr(1), Fr(1, 2), Fr(2)])
        else:
            d = base + Fr(40 * grp) + (Fr(rng.range(-1, 1)) if rng.chance(1, 4) else Fr(0))
        w = Fr(1) if wmode == 0 else rng.choice(MP_W)
        s = Fr(1) if smode == 0 else rng.choice(MP_S)
        vs[v] = (d / s if rng.chance(1, 2) else d, w, s)
    cs = [(a, b, rng.choice([Fr(1), Fr(1), Fr(2), Fr(3), Fr(1, 2), Fr(0)]), False) for a, b in zip(order, order[1:])]
    for _ in range(rng.below(n)):
        a, b = rng.below(n), rng.below(n)
        if a != b:
            if pos[a] > pos[b]:
                a, b = b, a
            cs.append((a, b, Fr(rng.range(0, 3)), False))
    cs = rng.shuffle(cs)
    return {'id': iid, 'kind': 'I', 'vs': vs, 'cs': cs, 'ops': [('S',) if rng.chance(solve_num, 4) else ('F',)],
            'tag': 'mp-' + shape + ('+wt' if wmode else '') + ('+scaled' if smode else '')}


def mp_perturb(rng, ins, res, which='some'):
    """D ops that change the desired positions of the variables of multi-variable blocks of the partition `res` (a real
    result) by a perturbation with sum_i (w_i / s_i) * delta_i = 0 EXACTLY (dyadic deltas): PositionStats::AD of the block
    and hence Block::posn keep their value bit for bit, while the individual multipliers change.  Returns (ops, #blocks)"""
    vs, _ = cons_at(ins, len(ins['ops']) - 1)
    blocks = {}
    for i, b in enumerate(res['B']):
        blocks.setdefault(b, []).append(i)
    multi = [m for m in blocks.values() if len(m) >= 2]
    if not multi:
        return [], 0
    if which == 'some' and not rng.chance(1, 2):
        multi = [rng.choice(multi)] if rng.chance(1, 2) else [m for m in multi if rng.chance(1, 2)] or [multi[0]]
    ops = []
    for mem in multi:
        mem = rng.shuffle(list(mem))
        last = mem[-1]
        tot = Fr(0)
        small = rng.chance(1, 3)
        for i in mem[:-1]:
            if len(mem) > 2 and rng.chance(1, 4):
                continue
            dl = rng.choice(MP_DELTA) / (8 if small else 1)
            tot += Fr(vs[i][1]) / Fr(vs[i][2]) * dl
            ops.append(('D', i, Fr(vs[i][0]) + dl))
        if tot != 0:
            ops.append(('D', last, Fr(vs[last][0]) - tot * Fr(vs[last][2]) / Fr(vs[last][1])))
    return rng.shuffle(ops), len(multi)


def gen_mp_histories(rng, n, nmax, impl, first_id, rounds=(1, 2, 2, 3), solve_num=3):
    """the directed family `mean-preserving re-solve`: solve; look at the block partition the REAL solver returned; move
    the desired positions of (some / all) multi-variable blocks by weighted-zero-sum dyadic perturbations; solve or
    satisfy again on the same solver; up to 3 rounds (each from the partition of the previous return; one variant goes
    back to the previous desired positions).  The histories are then judged like every other history."""
    insts = [gen_mp_base(rng, first_id + k, nmax, solve_num) for k in range(n)]
    nr = {ins['id']: rng.choice(list(rounds)) for ins in insts}
    stats = {'instances': n, 'rounds': 0, 'blocks_perturbed': 0}
    for rd in range(max(rounds)):
        live = [ins for ins in insts if nr[ins['id']] > rd]
        real = run_real(live, impl, tag='mp%d' % rd)
        for ins in live:
            rs = real.get(ins['id'], [])
            if not rs or rs[-1]['status'] != 'ok' or rs[-1]['op'] != len(ins['ops']) - 1:
                nr[ins['id']] = 0
                continue
            if rd >= 1 and rng.chance(1, 5):
                # back to the desired positions in force at the previous solve (the mean of a block that survived is again unchanged)
                k0 = max(k for k, o in enumerate(ins['ops'][:-1]) if o[0] in 'SF')
                old, _ = cons_at(ins, k0)
                cur, _ = cons_at(ins, len(ins['ops']) - 1)
                ops, nb = [('D', i, Fr(old[i][0])) for i in range(len(cur)) if Fr(old[i][0]) != Fr(cur[i][0])], 1
            else:
                ops, nb = mp_perturb(rng, ins, rs[-1], 'all' if rng.chance(1, 3) else 'some')
            if not ops:
                nr[ins['id']] = 0
                continue
            ins['ops'] = list(ins['ops']) + ops + [('S',) if rng.chance(solve_num, 4) else ('F',)]
            stats['rounds'] += 1
            stats['blocks_perturbed'] += nb
    for ins in insts:
        ins['tag'] += '+r%d' % (sum(1 for o in ins['ops'] if o[0] in 'SF') - 1)
    return insts, stats
