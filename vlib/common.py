"""Shared machinery for the /verif checks: paths, subprocesses, PRNG, evidence, violations,
known findings, C++ build cache (from /repo's working tree), Coq build, OCaml extraction build."""
import os, sys, json, time, hashlib, subprocess, shutil, re, glob

VERIF = os.path.dirname(os.path.dirname(os.path.abspath(__file__)))
REPO = os.environ.get('VERIF_REPO', '/repo')
COLA = os.path.join(REPO, 'cola')
# scratch trees (VERIF_REPO != /repo: mutation self-tests) get their own build directory so that concurrent runs
# do not evict each other's object caches
BUILD = os.path.join(VERIF, 'build') if os.path.realpath(REPO) == '/repo' else \
    os.path.join(VERIF, 'build', 'scratch-' + hashlib.sha256(os.path.realpath(REPO).encode()).hexdigest()[:10])
COQ = os.path.join(VERIF, 'coq')
SCRATCH = os.path.realpath(REPO) != '/repo'
if SCRATCH:
    # a scratch tree also gets a private copy of the Coq project (Gen/ is regenerated from the scratch sources and
    # must not disturb checks running against /repo at the same time); .vo files are copied so only what depends
    # on regenerated files is rebuilt
    _src = COQ
    COQ = os.path.join(BUILD, 'coq')
    os.makedirs(COQ, exist_ok=True)
    subprocess.run(['rsync', '-a', '--delete', '--exclude', '.lia.cache', '--exclude', '.nia.cache', _src + '/', COQ + '/'], check=False)
GUARD = 'ADAPTAGRAMS_VERIF'
NPROC = int(os.environ.get('VERIF_JOBS', '16'))


import fcntl, contextlib


@contextlib.contextmanager
def flock(name):
    ld = os.path.join(BUILD, 'locks')
    os.makedirs(ld, exist_ok=True)
    f = open(os.path.join(ld, name + '.lock'), 'w')
    try:
        fcntl.flock(f, fcntl.LOCK_EX)
        yield
    finally:
        fcntl.flock(f, fcntl.LOCK_UN)
        f.close()


def log(*a):
    print(*a, file=sys.stderr, flush=True)


def sh(cmd, timeout=600, cwd=None, env=None, input=None, check=False):
    e = dict(os.environ)
    if env:
        e.update(env)
    t0 = time.time()
    try:
        p = subprocess.run(cmd, shell=isinstance(cmd, str), cwd=cwd, env=e, input=input,
                           stdout=subprocess.PIPE, stderr=subprocess.PIPE, text=True, errors='replace', timeout=timeout)   # errors=: a program under test may print arbitrary bytes (e.g. a dangling char*)
        rc, out, err = p.returncode, p.stdout, p.stderr
    except subprocess.TimeoutExpired as ex:
        rc, out, err = 124, (ex.stdout or '') if isinstance(ex.stdout, str) else '', 'TIMEOUT after %ss' % timeout
    if check and rc != 0:
        raise RuntimeError('command failed (%d): %s\n%s\n%s' % (rc, cmd, out[-2000:], err[-4000:]))
    return rc, out, err, time.time() - t0


class SplitMix64:
    """the one PRNG every generator derives from (DESIGN 3.5)"""

    def __init__(self, seed):
        self.s = seed & 0xFFFFFFFFFFFFFFFF

    def next(self):
        self.s = (self.s + 0x9E3779B97F4A7C15) & 0xFFFFFFFFFFFFFFFF
        z = self.s
        z = ((z ^ (z >> 30)) * 0xBF58476D1CE4E5B9) & 0xFFFFFFFFFFFFFFFF
        z = ((z ^ (z >> 27)) * 0x94D049BB133111EB) & 0xFFFFFFFFFFFFFFFF
        return z ^ (z >> 31)

    def below(self, n):
        return self.next() % n

    def range(self, lo, hi):
        return lo + self.below(hi - lo + 1)

    def chance(self, num, den):
        return self.below(den) < num

    def choice(self, xs):
        return xs[self.below(len(xs))]

    def shuffle(self, xs):
        xs = list(xs)
        for i in range(len(xs) - 1, 0, -1):
            j = self.below(i + 1)
            xs[i], xs[j] = xs[j], xs[i]
        return xs

    def fork(self):
        return SplitMix64(self.next())


def get_seed():
    try:
        return int(os.environ.get('VERIF_SEED', '20260930'))
    except ValueError:
        return 20260930


# ------------------------------------------------------------------------------------- hashing
def file_hash(paths):
    h = hashlib.sha256()
    for p in sorted(paths):
        h.update(p.encode())
        try:
            with open(p, 'rb') as f:
                h.update(f.read())
        except OSError:
            h.update(b'<missing>')
    return h.hexdigest()[:20]


LIBS = ['libvpsc', 'libavoid', 'libcola', 'libtopology', 'libdialect']
LIBDEPS = {'libvpsc': [], 'libavoid': [], 'libcola': ['libvpsc'], 'libtopology': ['libvpsc', 'libcola', 'libavoid'],
           'libdialect': ['libvpsc', 'libcola', 'libavoid', 'libtopology']}


def lib_sources(lib):
    return sorted(glob.glob(os.path.join(COLA, lib, '*.cpp')))


def lib_headers(lib):
    return sorted(glob.glob(os.path.join(COLA, lib, '*.h')))


def build_lib(lib, flavor='plain'):
    with flock('lib-%s-%s' % (lib, flavor)):
        return _build_lib(lib, flavor)


def _build_lib(lib, flavor='plain'):
    """compile cola/<lib>/*.cpp from the current working tree into build/obj/<lib>-<flavor>-<hash>/lib.a.
    flavor: plain (-O1 -g), asan (address+undefined), each with -DADAPTAGRAMS_VERIF and USE_ASSERT_EXCEPTIONS
    per DESIGN 2; 'noassertexc' flavors keep abort()-style asserts."""
    # generated, untracked header that a scratch worktree of /repo lacks
    cfg = os.path.join(COLA, 'libcola', 'config.h')
    if not os.path.exists(cfg) and os.path.exists('/repo/cola/libcola/config.h') and os.path.isdir(os.path.dirname(cfg)):
        shutil.copy('/repo/cola/libcola/config.h', cfg)
    srcs = lib_sources(lib)
    hdrs = []
    for l in [lib] + LIBDEPS[lib]:
        hdrs += lib_headers(l)
    flags = ['-std=gnu++11', '-O1', '-g', '-w', '-I' + COLA, '-D' + GUARD, '-fPIC']
    if 'asan' in flavor:
        flags += ['-fsanitize=address,undefined', '-fno-omit-frame-pointer']
    if 'exc' in flavor:
        flags += ['-DUSE_ASSERT_EXCEPTIONS']
    if 'ndebug' in flavor:
        flags += ['-DNDEBUG']
    key = file_hash(srcs + hdrs) + hashlib.sha256(' '.join(flags).encode()).hexdigest()[:6]
    d = os.path.join(BUILD, 'obj', '%s-%s-%s' % (lib, flavor, key))
    ar = os.path.join(d, 'lib.a')
    if os.path.exists(ar):
        return ar
    # remove stale dirs of the same lib/flavor (disk is limited)
    for old in glob.glob(os.path.join(BUILD, 'obj', '%s-%s-*' % (lib, flavor))):
        shutil.rmtree(old, ignore_errors=True)
    os.makedirs(d, exist_ok=True)
    # exclude test / non-library sources
    srcs = [s for s in srcs if os.path.basename(s) not in ('cycle_detector.cpp',) or True]
    cmd = 'printf "%s\\n" ' + ' '.join('"%s"' % s for s in srcs) + \
          ' | xargs -P%d -I{} sh -c \'g++ %s -c "{}" -o "%s/$(basename {} .cpp).o"\'' % (NPROC, ' '.join(flags), d)
    rc, out, err, dt = sh(cmd, timeout=1200)
    if rc != 0:
        shutil.rmtree(d, ignore_errors=True)
        raise RuntimeError('C++ build of %s failed:\n%s' % (lib, err[-4000:]))
    objs = sorted(glob.glob(os.path.join(d, '*.o')))
    sh(['ar', 'rcs', ar] + objs, check=True)
    for o in objs:
        os.remove(o)
    log('built %s (%s) in %.1fs' % (lib, flavor, dt))
    return ar


def build_harness(name, libs, flavor='plain', extra_flags=(), extra_srcs=()):
    with flock('harness-%s-%s' % (name, flavor)):
        return _build_harness(name, libs, flavor, extra_flags, extra_srcs)


def _build_harness(name, libs, flavor='plain', extra_flags=(), extra_srcs=()):
    """compile /verif/harness/<name>.cpp against the given libs (built from /repo now)."""
    ars = [build_lib(l, flavor) for l in libs]
    src = os.path.join(VERIF, 'harness', name + '.cpp')
    deps = [src] + [os.path.join(VERIF, 'harness', 'common.hpp')] + list(extra_srcs)
    flags = ['-std=gnu++11', '-O1', '-g', '-w', '-I' + COLA, '-I' + os.path.join(VERIF, 'harness'), '-D' + GUARD] + list(extra_flags)
    if 'asan' in flavor:
        flags += ['-fsanitize=address,undefined', '-fno-omit-frame-pointer']
    if 'exc' in flavor:
        flags += ['-DUSE_ASSERT_EXCEPTIONS']
    if 'ndebug' in flavor:
        flags += ['-DNDEBUG']
    key = file_hash(deps) + hashlib.sha256((' '.join(flags) + ' '.join(ars)).encode()).hexdigest()[:10]
    d = os.path.join(BUILD, 'bin')
    os.makedirs(d, exist_ok=True)
    exe = os.path.join(d, '%s-%s-%s' % (name, flavor, key))
    if os.path.exists(exe):
        return exe
    for old in glob.glob(os.path.join(d, '%s-%s-*' % (name, flavor))):
        os.remove(old)
    order = ['libdialect', 'libtopology', 'libcola', 'libavoid', 'libvpsc']
    ars_sorted = [build_lib(l, flavor) for l in order if l in libs]
    cmd = ['g++'] + flags + [src] + list(extra_srcs) + ars_sorted + ['-o', exe]
    rc, out, err, dt = sh(cmd, timeout=600)
    if rc != 0:
        raise RuntimeError('harness build %s failed:\n%s' % (name, err[-4000:]))
    return exe


# ------------------------------------------------------------------------------------- Coq
def coq_regen(modules=None):
    """run cpp2v for the given Gen modules (all when None). Returns (ok, meta dict, messages)."""
    with flock('coq'):
        return _coq_regen(modules)


def _coq_regen(modules=None):
    cmd = ['python3', os.path.join(VERIF, 'tools', 'cpp2v.py'), os.path.join(VERIF, 'tools', 'cpp2v_specs'),
           os.path.join(COQ, 'theories', 'Gen'), '--repo', REPO]
    if modules:
        cmd += ['--only', ','.join(modules)]
    rc, out, err, dt = sh(cmd, timeout=600)
    meta = {}
    for mf in glob.glob(os.path.join(COQ, 'theories', 'Gen', 'cpp2v_meta_*.json')):
        mname = os.path.basename(mf)[len('cpp2v_meta_'):-5]
        if modules is None or mname in modules:
            meta[mname] = json.load(open(mf))
    return rc == 0, meta, (out + err).strip()


def coq_project():
    """(re)generate _CoqProject and Makefile listing every .v under theories/"""
    vs = sorted(glob.glob(os.path.join(COQ, 'theories', '**', '*.v'), recursive=True))
    rel = [os.path.relpath(v, COQ) for v in vs]
    txt = '-Q theories Adapt\n' + '\n'.join(rel) + '\n'
    p = os.path.join(COQ, '_CoqProject')
    if not os.path.exists(p) or open(p).read() != txt or not os.path.exists(os.path.join(COQ, 'Makefile')):
        open(p, 'w').write(txt)
        sh('coq_makefile -f _CoqProject -o Makefile', cwd=COQ, check=True)


def coq_make(targets, timeout=1500):
    """make -k the given .vo targets. returns (ok, log text, dt)"""
    with flock('coq'):
        coq_project()
        cmd = ['make', '-k', '-j%d' % NPROC] + targets
        rc, out, err, dt = sh(cmd, cwd=COQ, timeout=timeout)
    return rc == 0, out + '\n' + err, dt



def adapt_imports(txt):
    """module names in `From Adapt Require [Import|Export] A.B C.D.` sentences"""
    mods = []
    for m in re.finditer(r'From\s+Adapt\s+Require\s+(?:Import\s+|Export\s+)?', txt):
        rest = txt[m.end():]
        e = re.search(r'\.(\s|$)', rest)
        if e:
            mods += rest[:e.start()].split()
    return mods


def coq_deps(vfile):
    """transitive project-local dependencies of a .v file (paths relative to coq/)"""
    seen, todo = [], [vfile]
    while todo:
        f = todo.pop()
        if f in seen:
            continue
        seen.append(f)
        try:
            txt = open(os.path.join(COQ, f)).read()
        except OSError:
            continue
        for mod in adapt_imports(txt):
            p = 'theories/' + mod.replace('.', '/') + '.v'
            if os.path.exists(os.path.join(COQ, p)):
                todo.append(p)
    return seen


STMT_RE = re.compile(r'^\s*(?:Local\s+|Global\s+|Program\s+)?(Lemma|Theorem|Corollary|Example|Fact|Remark|Proposition|Instance)\s+([A-Za-z_][\w\']*)', re.M)
FORBIDDEN_RE = re.compile(r'\b(Admitted|admit|Axiom|Parameter|Conjecture|Unset\s+Guard|bypass_check|Admit\s+Obligations)\b')


def count_obligations(vfiles):
    n = 0
    names = []
    for f in vfiles:
        try:
            txt = open(os.path.join(COQ, f)).read()
        except OSError:
            continue
        txt = re.sub(r'\(\*.*?\*\)', '', txt, flags=re.S)
        for m in STMT_RE.finditer(txt):
            n += 1
            names.append(os.path.basename(f) + ':' + m.group(2))
    return n, names


def forbidden_scan(vfiles):
    bad = []
    for f in vfiles:
        try:
            txt = open(os.path.join(COQ, f)).read()
        except OSError:
            continue
        txt = re.sub(r'\(\*.*?\*\)', '', txt, flags=re.S)
        for m in FORBIDDEN_RE.finditer(txt):
            bad.append('%s: %s' % (f, m.group(1)))
    return bad


def print_assumptions(propfile):
    """re-run coqc on Properties/<id>.v to capture its Print Assumptions output"""
    with flock('coq'):
        rc, out, err, dt = sh(['coqc', '-Q', 'theories', 'Adapt', propfile], cwd=COQ, timeout=600)
    return rc, out, err


# ------------------------------------------------------------------------------------- OCaml extraction
def ocaml_build(name, extract_v, driver_ml, model_ml):
    with flock('ocaml-' + name):
        return _ocaml_build(name, extract_v, driver_ml, model_ml)


def _ocaml_build(name, extract_v, driver_ml, model_ml):
    """coqc the extraction file in build/extract/<name>, compile the driver. returns exe path."""
    d = os.path.join(BUILD, 'extract', name)
    os.makedirs(d, exist_ok=True)
    ev = os.path.join(VERIF, 'extract', extract_v)
    dm = os.path.join(VERIF, 'extract', driver_ml)
    depv = coq_deps_of_extract(ev)
    deps = [os.path.join(COQ, f) for f in depv] + [ev, dm]
    key = file_hash(deps)
    exe = os.path.join(d, 'driver-' + key)
    if os.path.exists(exe):
        return exe
    for old in glob.glob(os.path.join(d, 'driver-*')):
        os.remove(old)
    # the .vo files the extraction needs must be current
    ok, logtxt, dt = coq_make([f + 'o' for f in depv])
    if not ok:
        raise RuntimeError('model for extraction %s does not compile:\n%s' % (extract_v, logtxt[-3000:]))
    rc, out, err, dt = sh(['coqc', '-Q', os.path.join(COQ, 'theories'), 'Adapt', '-o',
                           os.path.join(d, os.path.basename(ev) + 'o'), ev], cwd=d, timeout=600)
    if rc != 0:
        raise RuntimeError('extraction %s failed:\n%s' % (extract_v, err[-3000:]))
    shutil.copy(dm, os.path.join(d, os.path.basename(dm)))
    base = model_ml[:-3]
    cmd = ['ocamlfind', 'ocamlopt', '-unsafe', '-inline', '100', '-w', '-a', '-package', 'unix', '-linkpkg',
           base + '.mli', base + '.ml', os.path.basename(dm), '-o', exe]
    rc, out, err, dt = sh(cmd, cwd=d, timeout=600)
    if rc != 0:
        raise RuntimeError('ocaml build %s failed:\n%s' % (name, (out + err)[-3000:]))
    return exe


def coq_deps_of_extract(ev):
    txt = open(ev).read()
    deps = []
    for mod in adapt_imports(txt):
        p = 'theories/' + mod.replace('.', '/') + '.v'
        for q in coq_deps(p):
            if q not in deps:
                deps.append(q)
    return deps


# ------------------------------------------------------------------------------------- findings / evidence
def load_known():
    known, fixed = [], []
    p = os.path.join(VERIF, 'KNOWN_FINDINGS.txt')
    if os.path.exists(p):
        for line in open(p):
            line = line.strip()
            if not line or line.startswith('#'):
                continue
            m = re.match(r'known:\s+property=(\S+)\s+fingerprint=(\S+)\s+(.*)', line)
            if m:
                known.append({'property': m.group(1), 'fingerprint': m.group(2), 'text': m.group(3)})
            m = re.match(r'fixed:\s+property=(\S+)\s+(\S+)\s+(.*)', line)
            if m:
                fixed.append({'property': m.group(1), 'commit': m.group(2), 'text': m.group(3)})
    return known, fixed


class Result:
    """collects what a check did; writes evidence and prints VIOLATION / KNOWN-FINDING lines"""

    def __init__(self, pid, tier, level):
        self.pid, self.tier, self.level = pid, tier, level
        self.seed = get_seed()
        self.t0 = time.time()
        self.cov = {}
        self.assumptions = []
        self.violations = []   # (replay path, no_input flag)
        self.known_hits = []
        self.known, self.fixed = load_known()

    def known_fingerprint(self, fp):
        for k in self.known:
            if k['property'] == self.pid and (k['fingerprint'] == fp or fp.startswith(k['fingerprint'] + ':')):
                return k
        return None

    def violation(self, obj, fingerprint=None, no_input=False):
        """obj: json-serialisable replay content. If fingerprint matches a known finding -> KNOWN-FINDING."""
        if fingerprint:
            k = self.known_fingerprint(fingerprint)
            if k:
                if fingerprint not in [h[0] for h in self.known_hits]:
                    self.known_hits.append((fingerprint, k['text']))
                    print('KNOWN-FINDING: property=%s %s [%s]' % (self.pid, k['text'], fingerprint), flush=True)
                return False
        d = os.path.join(VERIF, 'replays')
        os.makedirs(d, exist_ok=True)
        path = os.path.join(d, '%s-%d.json' % (self.pid, len(self.violations) + 1))
        obj = dict(obj)
        obj['property'] = self.pid
        if fingerprint:
            obj['fingerprint'] = fingerprint
        json.dump(obj, open(path, 'w'), indent=1, default=str)
        self.violations.append((path, no_input))
        print('VIOLATION property=%s replay=%s%s' % (self.pid, path, ' no-failing-input-found' if no_input else ''), flush=True)
        return True

    def finish(self):
        ev = {'property_id': self.pid, 'tier': self.tier, 'seed': self.seed, 'level': self.level,
              'coverage': self.cov, 'assumptions': self.assumptions,
              'wall_s': round(time.time() - self.t0, 2), 'violations': len(self.violations)}
        if self.known_hits:
            ev['coverage']['known_findings_hit'] = [h[0] for h in self.known_hits]
        # runs against a scratch tree (VERIF_REPO) keep their evidence with their private build, so that the committed
        # evidence always describes /repo itself
        evdir = os.path.join(BUILD, 'evidence') if SCRATCH else os.path.join(VERIF, 'evidence')
        os.makedirs(evdir, exist_ok=True)
        json.dump(ev, open(os.path.join(evdir, self.pid + '.json'), 'w'), indent=1, default=str)
        return 1 if self.violations else 0


TRUSTED_COMMON = [
    'Coq 8.16.1 kernel (coqc); vm_compute used only where a finite sweep is lifted by forallb_forall; no native_compute',
    'no Axiom/Parameter/Admitted in the development (grepped on every run); Print Assumptions output recorded per property theorem',
    'tools/cpp2v.py (C++ -> Gallina translator over the clang 14 JSON AST) and its type mapping double->Q, int->Z',
    'OCaml extraction with ExtrOcamlBasic only (Extract Inductive bool/option/unit/list/prod/sumbool; no Extract Constant), ocamlfind ocamlopt',
    'hand-written OCaml drivers (extract/*_driver.ml), C++ harnesses (harness/*.cpp), g++ 12 / libstdc++, this Python driver',
    'exact-rational model of binary64: inputs are small integers / dyadics so that every product is exact (validated by the correspondence, not proved)',
]


def prove(res, pid, gen_modules=None, extra_targets=()):
    """steps 1+2 of DESIGN 2: regenerate Gen/, make Properties/<pid>.vo, capture assumptions.
    returns dict(ok=..., broken=[...names of files that failed...], log=...)"""
    info = {'ok': True, 'broken': [], 'log': '', 'unsupported': []}
    if gen_modules:
        ok, meta, msg = coq_regen(gen_modules)
        info['cpp2v'] = meta
        if not ok:
            info['ok'] = False
            for m, fs in meta.items():
                for f in fs:
                    if f.get('status') != 'ok':
                        info['unsupported'].append('%s.%s: %s' % (m, f['name'], f.get('reason')))
    prop = 'theories/Properties/%s.v' % pid
    deps = coq_deps(prop)
    ok, logtxt, dt = coq_make([prop + 'o'] + list(extra_targets))
    info['log'] = logtxt[-6000:]
    info['coq_wall_s'] = round(dt, 1)
    n_all, names = count_obligations(deps)
    built = [f for f in deps if os.path.exists(os.path.join(COQ, f + 'o')) and
             os.path.getmtime(os.path.join(COQ, f + 'o')) >= os.path.getmtime(os.path.join(COQ, f))]
    n_ok, _ = count_obligations(built)
    if not ok:
        info['ok'] = False
        for m in re.finditer(r'File "\./([^"]+)", line (\d+)', logtxt):
            b = '%s:%s' % (m.group(1), m.group(2))
            if b not in info['broken']:
                info['broken'].append(b)
        # which lemma: find the statement enclosing that line
        info['broken_lemmas'] = []
        for b in info['broken']:
            f, ln = b.split(':')
            try:
                lines = open(os.path.join(COQ, f)).read().split('\n')
                for i in range(int(ln) - 1, -1, -1):
                    m = STMT_RE.match(lines[i])
                    if m:
                        info['broken_lemmas'].append('%s:%s' % (f, m.group(2)))
                        break
            except OSError:
                pass
    bad = forbidden_scan(deps)
    if bad:
        info['ok'] = False
        info['forbidden'] = bad
    assum = ''
    if ok:
        rc, out, err = print_assumptions(prop)
        assum = out.strip()
    if ok and res.tier == 'thorough':
        # independent re-check of the compiled property file and everything it depends on (DESIGN 2)
        with flock('coq'):
            rc2, out2, err2, dt2 = sh(['coqchk', '-o', '-silent', '-Q', 'theories', 'Adapt', 'Adapt.Properties.%s' % pid],
                                      cwd=COQ, timeout=1800)
        txt = (out2 + err2)
        res.cov['coqchk'] = {'rc': rc2, 'wall_s': round(dt2, 1), 'tail': txt[-1500:].split('\n')}
        if rc2 != 0:
            info['ok'] = False
            info.setdefault('broken', []).append('coqchk failed on Adapt.Properties.%s' % pid)
    res.cov['obligations'] = n_all
    res.cov['discharged'] = n_ok if not ok else n_all
    res.cov['checker_cmd'] = 'make -C /verif/coq -k -j16 %so  (coq_makefile project, full .vo build, coqc 8.16.1)' % prop
    res.cov['trusted_base'] = list(TRUSTED_COMMON)
    res.cov['print_assumptions'] = assum.split('\n') if assum else []
    res.cov['proof_files'] = deps
    res.cov['forbidden_constructs_found'] = bad
    if gen_modules:
        res.cov['cpp2v_functions'] = {m: [{k: f.get(k) for k in ('name', 'file', 'lines', 'hash', 'status')} for f in fs]
                                      for m, fs in info.get('cpp2v', {}).items()}
    return info
